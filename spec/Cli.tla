-------------------------------- MODULE Cli --------------------------------
(***************************************************************************)
(* The command line driver (cmd/cli.go: Cli) as a staged state machine:     *)
(* flag resolution -> argument check -> parse -> typecheck? -> execute?.     *)
(* An invocation is a configuration (switch spellings, verbosity, number of  *)
(* file arguments, class of the program file); its behaviour ends in a       *)
(* terminal state carrying everything C18 talks about: exit status, whether  *)
(* any process ran / any program output appeared, how many diagnostics were  *)
(* printed, whether the process died with a Go panic trace.                  *)
(*                                                                         *)
(* Mode = "model"   : Init ranges over every configuration; TLC checks the   *)
(*                    gatekeeping invariants on the design.                  *)
(* Mode = "conform" : Init ranges over the recorded invocations of the built *)
(*                    binary (VERIF_TRACES); at the terminal state the       *)
(*                    observed exit status / output / diagnostics must equal *)
(*                    the specification's (invariant ObservationOK).         *)
(***************************************************************************)
EXTENDS Integers, Sequences, FiniteSets, TLC, Json, IOUtils

CONSTANTS Mode, Allowed   \* Allowed: deviations that are known findings (e.g. {"K3"})

Tri == {"default", "true", "false"}
Classes == {"missing",            \* the file does not exist
            "unparseable",        \* syntax error
            "illtyped_stuck",     \* type error; run anyway it prints, then just stops making progress
            "illtyped_panics",    \* type error; run anyway the interpreter hits a protocol error
            "welltyped_silent",   \* accepted, prints nothing
            "welltyped_prints"}   \* accepted, prints labels

Configs == [tc : Tri, ntc : BOOLEAN, ex : Tri, nex : BOOLEAN, sync : BOOLEAN, async : {"default", "false"},
            verb : 0..4, nargs : 0..2, class : Classes]

Obs == IF Mode = "conform" THEN JsonDeserialize(IOEnv.VERIF_TRACES) ELSE <<>>
   \* sequence of [cfg |-> config, exit |-> Int, prints |-> BOOLEAN, spawned |-> BOOLEAN, diag |-> Int, panic |-> BOOLEAN]

VARIABLES cfg, oi, stage, exit, ran, printed, diag, panicked, tcRes, exRes

vars == <<cfg, oi, stage, exit, ran, printed, diag, panicked, tcRes, exRes>>

Init ==
    /\ IF Mode = "model" THEN cfg \in Configs /\ oi = 0
       ELSE oi \in 1..Len(Obs) /\ cfg = Obs[oi].cfg
    /\ stage = "flags"
    /\ exit = -1 /\ ran = FALSE /\ printed = FALSE /\ diag = 0 /\ panicked = FALSE
    /\ tcRes = FALSE /\ exRes = FALSE

Fatal == /\ exit' = 1 /\ diag' = diag + 1 /\ stage' = "done"      \* log.Fatal: one diagnostic, status 1
Finish == /\ exit' = 0 /\ stage' = "done"

\* flag.Parse and the two switch pairs: each switch has a positive and a negative spelling, "no" wins
Flags ==
    /\ stage = "flags"
    /\ tcRes' = (~cfg.ntc /\ cfg.tc # "false")
    /\ exRes' = (~cfg.nex /\ cfg.ex # "false")
    /\ stage' = "args"
    /\ UNCHANGED <<cfg, oi, exit, ran, printed, diag, panicked>>

Args ==
    /\ stage = "args"
    /\ IF cfg.nargs # 1 THEN Fatal /\ UNCHANGED <<ran, printed, panicked>>
       ELSE stage' = "parse" /\ UNCHANGED <<exit, ran, printed, diag, panicked>>
    /\ UNCHANGED <<cfg, oi, tcRes, exRes>>

Parse ==
    /\ stage = "parse"
    /\ IF cfg.class \in {"missing", "unparseable"} THEN Fatal /\ UNCHANGED <<ran, printed, panicked>>
       ELSE stage' = "check" /\ UNCHANGED <<exit, ran, printed, diag, panicked>>
    /\ UNCHANGED <<cfg, oi, tcRes, exRes>>

WellTyped == cfg.class \in {"welltyped_silent", "welltyped_prints"}

Check ==
    /\ stage = "check"
    /\ IF tcRes /\ ~WellTyped THEN Fatal /\ UNCHANGED <<ran, printed, panicked>>
       ELSE stage' = "exec" /\ UNCHANGED <<exit, ran, printed, diag, panicked>>
    /\ UNCHANGED <<cfg, oi, tcRes, exRes>>

\* execution: --sync selects the non-polarized version, otherwise async unless it was switched off (then nothing runs)
Exec ==
    /\ stage = "exec"
    /\ IF ~exRes \/ (~cfg.sync /\ cfg.async = "false")
       THEN Finish /\ UNCHANGED <<ran, printed, diag, panicked>>
       ELSE /\ ran' = TRUE
            /\ printed' = (cfg.class \in {"welltyped_prints", "illtyped_stuck"})
            /\ IF cfg.class = "illtyped_panics"
               THEN \* Dev_K3: runtime errors are Go panics; only reachable with typechecking switched off
                    /\ "K3" \in Allowed
                    /\ panicked' = TRUE /\ exit' = 2 /\ stage' = "done" /\ UNCHANGED diag
               ELSE Finish /\ UNCHANGED <<diag, panicked>>
    /\ UNCHANGED <<cfg, oi, tcRes, exRes>>

Next == Flags \/ Args \/ Parse \/ Check \/ Exec
Spec == Init /\ [][Next]_vars /\ WF_vars(Next)

(***************************************************************************)
(* C18                                                                       *)
(***************************************************************************)
Done == stage = "done"
ParseOk == cfg.nargs = 1 /\ cfg.class \notin {"missing", "unparseable"}

\* status 0 iff parsing succeeded and typechecking was skipped or succeeded (the K3 deviation aside)
ExitZeroIff == (Done /\ ~panicked) => ((exit = 0) <=> (ParseOk /\ (~tcRes \/ WellTyped)))
\* nothing runs and nothing is printed by the program unless status is 0 (or the K3 panic) and execution was asked for
NoRunUnlessChecked == ran => (ParseOk /\ (~tcRes \/ WellTyped) /\ exRes)
NoOutputOnFailure == (Done /\ exit = 1) => (~ran /\ ~printed)
NoExecuteNeverRuns == (cfg.nex \/ cfg.ex = "false") => ~ran
\* exactly one diagnostic on failure, none on success
OneDiagnostic == Done => (diag = IF exit = 1 THEN 1 ELSE 0)
\* a Go panic only for the listed finding: typechecking disabled and a program that errs at run time
PanicOnlyK3 == panicked => (~tcRes /\ cfg.class = "illtyped_panics")
Terminates == <>Done

(***************************************************************************)
(* conformance: the recorded invocation agrees with the terminal state       *)
(***************************************************************************)
ObservationOK ==
    (Mode = "conform" /\ Done) =>
        LET o == Obs[oi] IN
        /\ o.exit = exit
        /\ o.spawned = ran
        /\ o.prints = printed
        /\ o.diag = diag
        /\ o.panic = panicked
=============================================================================
