------------------------------ MODULE GritsRT ------------------------------
(***************************************************************************)
(* The Grits interpreter as written (process/transition.go, runtime.go):   *)
(* one action per critical section of the Go code, for the polarized       *)
(* asynchronous ("async") and polarized synchronous ("sync") execution      *)
(* versions.  (The non-polarized version lives in GritsNP.tla.)             *)
(*                                                                         *)
(* Programs are data: the harness dumps the parsed + typechecked AST of    *)
(* the real front end as a node table (process/verif_dump.go) and this      *)
(* module interprets it.  Identifiers are resolved through an environment   *)
(* (lexical scoping by construction); the code substitutes in place, which  *)
(* must be observationally the same.                                        *)
(*                                                                         *)
(* Process and channel ids are creator-relative paths: the k-th process     *)
(* spawned by p is Append(p, k), the k-th channel created by p is           *)
(* Append(p, k).  The tracer in the harness computes the same ids from the  *)
(* real run, so a recorded trace can be compared field by field.            *)
(***************************************************************************)
EXTENDS Integers, Sequences, FiniteSets, TLC, Json, IOUtils, SequencesExt

CONSTANTS Modes,      \* execution versions explored, subset of {"async", "sync"}
          TraceMode,  \* TRUE: actions also compute the events the real code must log
          MaxChans    \* state constraint (non-terminating programs)

Corpus == JsonDeserialize(IOEnv.VERIF_CORPUS)
   \* sequence of [prog |-> dump, typed |-> BOOLEAN, expect |-> Seq(label) or <<"?">>]

VARIABLES mode,   \* "async" | "sync"
          pi,     \* index of the program in Corpus
          procs,  \* pid -> process record (live goroutines)
          chans,  \* cid -> [buf, puts, closed]
          out,    \* printed labels, in order
          err,    \* <<>> or <<class, pid>> : first runtime error (Go panic)
          emit    \* pid -> events the last action makes that process log (TraceMode only)

vars == <<mode, pi, procs, chans, out, err, emit>>

NIL  == <<>>        \* uninitialised channel
SELF == <<-1>>      \* the provider channel(s) of the process itself
ROOT == <<0>>       \* the runtime (creates the top-level channels and processes)

Prog  == Corpus[pi].prog
Nodes == Prog.nodes
Typed == Corpus[pi].typed

SelfNm == [id |-> "", self |-> TRUE, pol |-> "", xpol |-> ""]
Nm(id, pol) == [id |-> id, self |-> FALSE, pol |-> pol, xpol |-> ""]
NoSyn == [k |-> "none"]

NewChan == [buf |-> <<>>, puts |-> 0, closed |-> FALSE]
ZeroMsg == [rule |-> "SND", label |-> "", ch1 |-> NIL, pol1 |-> "nil", ch2 |-> NIL, pol2 |-> "nil", provs |-> <<>>]
Msg(rule, label, ch1, pol1, ch2, pol2, provs) ==
    [rule |-> rule, label |-> label, ch1 |-> ch1, pol1 |-> pol1, ch2 |-> ch2, pol2 |-> pol2, provs |-> provs]

(***************************************************************************)
(* Static analysis of the node table: free names in the interpreter's      *)
(* order (Form.FreeNames, mergeTwoNamesList, removeBoundName).              *)
(***************************************************************************)
AddNm(s, nm) == IF nm.self \/ \E i \in 1..Len(s) : s[i].id = nm.id THEN s ELSE Append(s, nm)
MergeNm(s, t) == FoldLeft(AddNm, s, t)
Without(s, id) == SelectSeq(s, LAMBDA nm : nm.id # id)

FNleaf(nd) ==
    CASE nd.k = "send"  -> MergeNm(<<>>, <<nd.to, nd.pay, nd.cont>>)
      [] nd.k = "sel"   -> MergeNm(<<>>, <<nd.to, nd.cont>>)
      [] nd.k = "close" -> MergeNm(<<>>, <<nd.from>>)
      [] nd.k = "fwd"   -> MergeNm(<<>>, <<nd.to, nd.from>>)
      [] nd.k = "cast"  -> MergeNm(<<>>, <<nd.to, nd.cont>>)
      [] nd.k = "call"  -> MergeNm(<<>>, nd.args)
      [] OTHER          -> <<>>

RECURSIVE FNn(_, _)
FNn(T, n) ==
    LET nd == T[n] IN
    CASE nd.k = "recv"  -> MergeNm(MergeNm(<<>>, <<nd.from>>), Without(Without(FNn(T, nd.next), nd.pay.id), nd.cont.id))
      [] nd.k = "case"  -> LET AddBr(s, b) == MergeNm(s, Without(FNn(T, b.next), b.pay.id))
                           IN FoldLeft(AddBr, MergeNm(<<>>, <<nd.from>>), nd.br)
      [] nd.k = "new"   -> MergeNm(MergeNm(<<>>, FNn(T, nd.body)), Without(FNn(T, nd.next), nd.x.id))
      [] nd.k = "split" -> MergeNm(MergeNm(<<>>, <<nd.from>>), Without(Without(FNn(T, nd.next), nd.a.id), nd.b.id))
      [] nd.k = "wait"  -> MergeNm(MergeNm(<<>>, <<nd.to>>), FNn(T, nd.next))
      [] nd.k = "shift" -> MergeNm(MergeNm(<<>>, <<nd.from>>), Without(FNn(T, nd.next), nd.cont.id))
      [] nd.k = "drop"  -> MergeNm(MergeNm(<<>>, <<nd.c>>), FNn(T, nd.next))
      [] nd.k = "print" -> FNn(T, nd.next)
      [] OTHER          -> FNleaf(nd)

FNTab == [i \in 1..Len(Corpus) |->
            [n \in 1..Len(Corpus[i].prog.nodes) |-> FNn(Corpus[i].prog.nodes, n)]]

(***************************************************************************)
(* Processes                                                               *)
(***************************************************************************)
\* Ownership layer: inst names the copy of the syntax tree a process body lives in.  The parsed program is
\* instance <<0>>; CALL and DUP make fresh copies (CopyForm), CUT hands a sub-tree of the same copy to the
\* child, synthetic forms (forwards made by SPLIT / DROP / DUP / GC, axioms a positive forward turns into) are
\* fresh objects of their own.  A tree node is the pair <<inst, n>>; ni counts the copies a process has made.
Proc(n, env, provs, inst) ==
    [n |-> n, syn |-> NoSyn, env |-> env, provs |-> provs, nc |-> 0, ns |-> 0,
     st |-> "run", on |-> NIL, how |-> "", inst |-> inst, ni |-> 0]
SynProc(syn, env, provs, inst) ==
    [n |-> 0, syn |-> syn, env |-> env, provs |-> provs, nc |-> 0, ns |-> 0,
     st |-> "run", on |-> NIL, how |-> "", inst |-> inst, ni |-> 0]

\* the instance a fresh object made for / by process q lives in
OwnInst(q) == q \o <<0>>
CopyInst(q, k) == q \o <<-k>>

SynFwd(q, c, pol, drop, provs) ==
    SynProc([k |-> "fwd", to |-> SelfNm, from |-> Nm("$1", pol), drop |-> drop], ("$1" :> c), provs, OwnInst(q))

Node(P) == IF P.n = 0 THEN P.syn ELSE Nodes[P.n]

\* the channel an occurrence denotes in process P
Res(P, nm) == IF nm.self THEN SELF
              ELSE IF nm.id \in DOMAIN P.env THEN P.env[nm.id] ELSE NIL

\* the polarity the interpreter reads off an occurrence (Name.Polarity)
PolOf(nm) == IF Typed THEN nm.pol
             ELSE IF nm.xpol # "" THEN nm.xpol ELSE "unk"

FreeRefs(P) ==
    LET fn == IF P.n = 0 THEN FNleaf(P.syn) ELSE FNTab[pi][P.n]
        r  == [i \in 1..Len(fn) |-> [id |-> fn[i].id, c |-> Res(P, fn[i]), pol |-> PolOf(fn[i])]]
    IN SelectSeq(r, LAMBDA x : x.c # SELF /\ x.c # NIL)

Del(S) == [q \in DOMAIN procs \ S |-> procs[q]]

(***************************************************************************)
(* Events (what the hooks of the real code log).  Only TraceMode uses them. *)
(***************************************************************************)
Cid(P, nm) == LET r == Res(P, nm) IN IF r = SELF THEN <<>> ELSE r

HeadF(P) ==
    LET nd == Node(P)
        keys == CASE nd.k = "send"  -> <<"to", "pay", "cont">>
                  [] nd.k = "recv"  -> <<"from">>
                  [] nd.k = "sel"   -> <<"to", "cont">>
                  [] nd.k = "case"  -> <<"from">>
                  [] nd.k = "close" -> <<"from">>
                  [] nd.k = "fwd"   -> <<"to", "from">>
                  [] nd.k = "split" -> <<"from">>
                  [] nd.k = "wait"  -> <<"to">>
                  [] nd.k = "cast"  -> <<"to", "cont">>
                  [] nd.k = "shift" -> <<"from">>
                  [] nd.k = "drop"  -> <<"c">>
                  [] OTHER          -> <<>>
        \* the tracer lists names in the fixed order to, from, c, pay, cont
        ord == SelectSeq(<<"to", "from", "c", "pay", "cont">>, LAMBDA x : \E i \in 1..Len(keys) : keys[i] = x)
        selfs == SelectSeq(ord, LAMBDA x : Res(P, nd[x]) = SELF)
        names == [i \in 1..Len(ord) |-> Cid(P, nd[ord[i]])]
        args  == IF nd.k = "call" THEN [i \in 1..Len(nd.args) |-> Cid(P, nd.args[i])] ELSE <<>>
    IN [kind  |-> nd.k,
        self  |-> IF Len(selfs) > 0 THEN selfs[1] ELSE "",
        names |-> names \o args,
        label |-> IF nd.k \in {"sel", "print"} THEN nd.label ELSE "",
        fn    |-> IF nd.k = "call" THEN nd.fn ELSE "",
        drop  |-> IF nd.k = "fwd" THEN nd.drop ELSE FALSE]

\* inst / n are not logged: the trace specification uses them to name the tree nodes the event's "tree" field lists
EvAt(p, P)       == [e |-> "at", p |-> p, provs |-> P.provs, inst |-> P.inst, n |-> P.n] @@ HeadF(P)
EvSpawn(p, c, P) == [e |-> "spawn", p |-> p, child |-> c, provs |-> P.provs, inst |-> P.inst, n |-> P.n] @@ HeadF(P)
EvMsg(e, p, c, m) == [e |-> e, p |-> p, c |-> c, ctl |-> FALSE, rule |-> m.rule, label |-> m.label,
                      ch1 |-> m.ch1, ch2 |-> m.ch2, provs |-> m.provs]
EvCall(p)        == [e |-> "call", p |-> p]
EvPrint(p, l)    == [e |-> "print", p |-> p, label |-> l]
EvEnd(p, how)    == [e |-> "end", p |-> p, how |-> how]

(***************************************************************************)
(* State update helpers                                                     *)
(***************************************************************************)
Set(procs2, chans2, out2, emit2) ==
    /\ procs' = procs2
    /\ chans' = chans2
    /\ out' = out2
    /\ emit' = IF TraceMode THEN emit2 ELSE <<>>
    /\ UNCHANGED <<mode, pi, err>>

Fail(p, why) ==
    /\ err' = <<why, p>>
    /\ emit' = <<>>
    /\ UNCHANGED <<mode, pi, procs, chans, out>>

\* process p continues with record P2 (and logs its next "at")
Continue(p, P2, first) == (p :> (first \o <<EvAt(p, P2)>>))

(***************************************************************************)
(* DUP (performDUPrule): a process owed a duplication copies itself once    *)
(* per provider, creating |free names| x |providers| fresh channels and one *)
(* multi-provider forward per free name.  base = channel counter to use.    *)
(***************************************************************************)
DupDo(p, P, base) ==
    LET k  == Len(P.provs)
        fr == FreeRefs(P)
        m  == Len(fr)
        Fresh(i, j) == Append(p, base + (i - 1) * k + j)
        CopyEnv(j) == [id \in DOMAIN P.env |->
                         LET idx == {i \in 1..m : fr[i].id = id}
                         IN IF idx # {} THEN Fresh(CHOOSE i \in idx : TRUE, j) ELSE P.env[id]]
        Cpid(j) == Append(p, P.ns + j)
        Fpid(i) == Append(p, P.ns + k + i)
        Copy(j) == [P EXCEPT !.env = CopyEnv(j), !.provs = <<P.provs[j]>>, !.nc = 0, !.ns = 0, !.inst = OwnInst(Cpid(j)), !.ni = 0]
        Fwd(i)  == SynFwd(Fpid(i), fr[i].c, fr[i].pol, FALSE, [j \in 1..k |-> Fresh(i, j)])
        newprocs == [q \in {Cpid(j) : j \in 1..k} \cup {Fpid(i) : i \in 1..m} |->
                       IF \E j \in 1..k : q = Cpid(j)
                       THEN Copy(CHOOSE j \in 1..k : q = Cpid(j))
                       ELSE Fwd(CHOOSE i \in 1..m : q = Fpid(i))]
        newchans == [c \in {Fresh(i, j) : i \in 1..m, j \in 1..k} |-> NewChan]
        mine == [j \in 1..k |-> EvSpawn(p, Cpid(j), Copy(j))]
                \o [i \in 1..m |-> EvSpawn(p, Fpid(i), Fwd(i))]
                \o <<EvEnd(p, "terminate")>>
        theirs == [q \in DOMAIN newprocs |-> <<EvAt(q, newprocs[q])>>]
    IN Set(newprocs @@ Del({p}), newchans @@ chans, out, (p :> mine) @@ theirs)

NeedsDup(P) == Len(P.provs) > 1

(***************************************************************************)
(* Sending (TransitionBySending and the two active forward sites).          *)
(* async: buffered channel of capacity 1, the sender goes on at once.       *)
(* sync : unbuffered; modelled as "message offered, sender parked until it  *)
(*        is taken" - a parked sender can do nothing else in the code.      *)
(***************************************************************************)
CanPut(c) == c \in DOMAIN chans /\ Len(chans[c].buf) = 0

SendMsg(p, P, c, m, how) ==
    IF c \in DOMAIN chans /\ chans[c].closed THEN Fail(p, "send on closed channel")
    ELSE /\ CanPut(c)
         /\ LET chans2 == [chans EXCEPT ![c].buf = <<m>>, ![c].puts = @ + 1] IN
            IF mode = "async"
            THEN Set(Del({p}), chans2, out, (p :> <<EvMsg("send", p, c, m), EvEnd(p, how)>>))
            ELSE Set([procs EXCEPT ![p] = [P EXCEPT !.st = "sent", !.on = c, !.how = how]], chans2, out,
                     (p :> <<EvMsg("send", p, c, m)>>))

(***************************************************************************)
(* Receiving: take the message; in sync mode the parked sender is released. *)
(***************************************************************************)
CanTake(c) == c \in DOMAIN chans /\ (Len(chans[c].buf) > 0 \/ chans[c].closed)

Taken(c) ==
    LET ch  == chans[c]
        m   == IF Len(ch.buf) > 0 THEN Head(ch.buf) ELSE ZeroMsg
        snd == {s \in DOMAIN procs : procs[s].st = "sent" /\ procs[s].on = c}
        s   == CHOOSE s \in snd : TRUE
    IN [m |-> m,
        procsB |-> IF snd # {} THEN Del({s}) ELSE procs,
        chansB |-> [chans EXCEPT ![c].buf = IF Len(@) > 0 THEN Tail(@) ELSE @],
        emitB  |-> IF snd # {} THEN (s :> <<EvEnd(s, procs[s].how)>>) ELSE <<>>]

\* handleNegativeForwardRequest: adopt the forwarded providers, close the old ones, stay at the same form
Adopt(q, Q, c, B) ==
    LET Q2 == [Q EXCEPT !.provs = B.m.provs]
        chans3 == [x \in DOMAIN B.chansB |-> IF \E i \in 1..Len(Q.provs) : Q.provs[i] = x
                                             THEN [B.chansB[x] EXCEPT !.closed = TRUE] ELSE B.chansB[x]]
    IN Set([B.procsB EXCEPT ![q] = Q2], chans3, out,
           Continue(q, Q2, <<EvMsg("recv", q, c, B.m)>>) @@ B.emitB)

\* handleNegativeDropRequest: one droppable forward (on a fresh channel) per free name, then terminate
GcCascade(q, Q, c, B) ==
    LET fr == FreeRefs(Q)
        m  == Len(fr)
        Ch(i)  == Append(q, Q.nc + i)
        Pid(i) == Append(q, Q.ns + i)
        Kid(i) == SynFwd(Pid(i), fr[i].c, fr[i].pol, TRUE, <<Ch(i)>>)
        kids   == [x \in {Pid(i) : i \in 1..m} |-> Kid(CHOOSE i \in 1..m : x = Pid(i))]
        newchans == [x \in {Ch(i) : i \in 1..m} |-> NewChan]
        mine == <<EvMsg("recv", q, c, B.m)>> \o [i \in 1..m |-> EvSpawn(q, Pid(i), Kid(i))] \o <<EvEnd(q, "terminate")>>
        theirs == [x \in DOMAIN kids |-> <<EvAt(x, kids[x])>>]
    IN Set(kids @@ [x \in DOMAIN B.procsB \ {q} |-> B.procsB[x]], newchans @@ B.chansB, out,
           (q :> mine) @@ theirs @@ B.emitB)

\* the common shape of TransitionByReceiving: DUP check, take, FWD / GC requests, else the form's own rule
\* Rule(B) is the form-specific action, given the taken message
ContinueWith(q, Q2, c, B) ==
    Set([B.procsB EXCEPT ![q] = Q2], B.chansB, out, Continue(q, Q2, <<EvMsg("recv", q, c, B.m)>>) @@ B.emitB)

Next1(Q, n2, env2, provs2) == [Q EXCEPT !.n = n2, !.syn = NoSyn, !.env = env2, !.provs = provs2]

(***************************************************************************)
(* One step of process p                                                    *)
(***************************************************************************)
StepSendForm(p, P, nd) ==
    LET to == Res(P, nd.to) IN
    IF to = SELF
    THEN IF NeedsDup(P) THEN DupDo(p, P, P.nc)
         ELSE SendMsg(p, P, P.provs[1],
                      Msg("SND", "", Res(P, nd.pay), PolOf(nd.pay), Res(P, nd.cont), PolOf(nd.cont), <<>>), "terminate")
    ELSE IF Res(P, nd.cont) # SELF THEN Fail(p, "send: continuation should be self")
    ELSE IF NeedsDup(P) THEN DupDo(p, P, P.nc)
    ELSE SendMsg(p, P, to, Msg("RCV", "", Res(P, nd.pay), PolOf(nd.pay), P.provs[1], "", <<>>), "renamed")

StepSelForm(p, P, nd) ==
    LET to == Res(P, nd.to) IN
    IF to = SELF
    THEN IF NeedsDup(P) THEN DupDo(p, P, P.nc)
         ELSE SendMsg(p, P, P.provs[1], Msg("SEL", nd.label, Res(P, nd.cont), PolOf(nd.cont), NIL, "nil", <<>>), "terminate")
    ELSE IF Res(P, nd.cont) # SELF THEN Fail(p, "select: neither side is self")
    ELSE IF NeedsDup(P) THEN DupDo(p, P, P.nc)
    ELSE SendMsg(p, P, to, Msg("BRA", nd.label, P.provs[1], "", NIL, "nil", <<>>), "renamed")

StepCastForm(p, P, nd) ==
    LET to == Res(P, nd.to) IN
    IF to = SELF
    THEN IF NeedsDup(P) THEN DupDo(p, P, P.nc)
         ELSE SendMsg(p, P, P.provs[1], Msg("CST", "", Res(P, nd.cont), PolOf(nd.cont), NIL, "nil", <<>>), "terminate")
    ELSE IF Res(P, nd.cont) # SELF THEN Fail(p, "cast: continuation should be self")
    ELSE IF NeedsDup(P) THEN DupDo(p, P, P.nc)
    ELSE SendMsg(p, P, to, Msg("SHF", "", P.provs[1], "", NIL, "nil", <<>>), "renamed")

StepCloseForm(p, P, nd) ==
    IF Res(P, nd.from) # SELF THEN Fail(p, "close on a client")
    ELSE IF NeedsDup(P) THEN DupDo(p, P, P.nc)
    ELSE SendMsg(p, P, P.provs[1], Msg("CLS", "", NIL, "nil", NIL, "nil", <<>>), "terminate")

\* shared skeleton of the four receiving forms; Own(B) handles a data message
Receiving(p, P, c, Own(_)) ==
    IF c = NIL THEN Fail(p, "channel not initialized")
    ELSE IF NeedsDup(P) THEN DupDo(p, P, P.nc)
    ELSE /\ CanTake(c)
         /\ LET B == Taken(c) IN
            CASE B.m.rule = "FWD" -> Adopt(p, P, c, B)
              [] B.m.rule = "GC"  -> GcCascade(p, P, c, B)
              [] OTHER            -> Own(B)

StepRecvForm(p, P, nd) ==
    LET from == Res(P, nd.from) IN
    IF from = SELF
    THEN LET Own(B) ==
               IF B.m.rule # "RCV" THEN Fail(p, "expected RCV")
               ELSE ContinueWith(p, Next1(P, nd.next, (nd.pay.id :> B.m.ch1) @@ (nd.cont.id :> SELF) @@ P.env, <<B.m.ch2>>),
                                 P.provs[1], B)
         IN Receiving(p, P, P.provs[1], Own)
    ELSE LET Own(B) ==
               IF B.m.rule # "SND" THEN Fail(p, "expected SND")
               ELSE ContinueWith(p, Next1(P, nd.next, (nd.pay.id :> B.m.ch1) @@ (nd.cont.id :> B.m.ch2) @@ P.env, P.provs),
                                 from, B)
         IN Receiving(p, P, from, Own)

Branch(nd, l) == LET idx == {i \in 1..Len(nd.br) : nd.br[i].label = l}
                 IN IF idx = {} THEN [label |-> "", next |-> 0]
                    ELSE nd.br[CHOOSE i \in idx : \A j \in idx : i <= j]

StepCaseForm(p, P, nd) ==
    LET from == Res(P, nd.from) IN
    IF from = SELF
    THEN LET Own(B) ==
               IF B.m.rule # "BRA" THEN Fail(p, "expected BRA")
               ELSE LET b == Branch(nd, B.m.label) IN
                    IF b.next = 0 THEN Fail(p, "no matching label")
                    ELSE ContinueWith(p, Next1(P, b.next, (b.pay.id :> SELF) @@ P.env, <<B.m.ch1>>), P.provs[1], B)
         IN Receiving(p, P, P.provs[1], Own)
    ELSE LET Own(B) ==
               IF B.m.rule # "SEL" THEN Fail(p, "expected SEL")
               ELSE LET b == Branch(nd, B.m.label) IN
                    IF b.next = 0 THEN Fail(p, "no matching label")
                    ELSE ContinueWith(p, Next1(P, b.next, (b.pay.id :> B.m.ch1) @@ P.env, P.provs), from, B)
         IN Receiving(p, P, from, Own)

StepWaitForm(p, P, nd) ==
    LET to == Res(P, nd.to) IN
    IF to = SELF THEN Fail(p, "wait on self")
    ELSE LET Own(B) == IF B.m.rule # "CLS" THEN Fail(p, "expected CLS")
                       ELSE ContinueWith(p, Next1(P, nd.next, P.env, P.provs), to, B)
         IN Receiving(p, P, to, Own)

StepShiftForm(p, P, nd) ==
    LET from == Res(P, nd.from) IN
    IF from = SELF
    THEN LET Own(B) == IF B.m.rule # "SHF" THEN Fail(p, "expected SHF")
                       ELSE ContinueWith(p, Next1(P, nd.next, (nd.cont.id :> SELF) @@ P.env, <<B.m.ch1>>), P.provs[1], B)
         IN Receiving(p, P, P.provs[1], Own)
    ELSE LET Own(B) == IF B.m.rule # "CST" THEN Fail(p, "expected CST")
                       ELSE ContinueWith(p, Next1(P, nd.next, (nd.cont.id :> B.m.ch1) @@ P.env, P.provs), from, B)
         IN Receiving(p, P, from, Own)

\* CUT: fresh channel, the body is handed to a new process, the parent continues
StepNewForm(p, P, nd) ==
    IF NeedsDup(P) THEN DupDo(p, P, P.nc)
    ELSE LET c   == Append(p, P.nc + 1)
             kid == Append(p, P.ns + 1)
             K   == Proc(nd.body, P.env, <<c>>, P.inst)
             P2  == [Next1(P, nd.next, (nd.x.id :> c) @@ P.env, P.provs) EXCEPT !.nc = @ + 1, !.ns = @ + 1]
         IN Set((kid :> K) @@ [procs EXCEPT ![p] = P2], (c :> NewChan) @@ chans, out,
                Continue(p, P2, <<EvSpawn(p, kid, K)>>) @@ (kid :> <<EvAt(kid, K)>>))

Funcs == Prog.funcs
Lookup(fn, arity) ==
    LET idx == {i \in 1..Len(Funcs) : Funcs[i].name = fn /\ (Len(Funcs[i].params) = arity \/ Len(Funcs[i].params) = arity - 1)}
    IN IF idx = {} THEN 0 ELSE CHOOSE i \in idx : \A j \in idx : i <= j

\* CALL: the body of the callee with the parameters bound to the caller's channels
StepCallForm(p, P, nd) ==
    IF NeedsDup(P) THEN DupDo(p, P, P.nc)
    ELSE LET arity == Len(nd.args)
             fi == Lookup(nd.fn, arity) IN
         IF fi = 0 THEN Fail(p, "function does not exist")
         ELSE LET F == Funcs[fi]
                  n == Len(F.params)
                  off == IF arity = n THEN 0 ELSE 1
                  ids == {F.params[i].id : i \in 1..n}
                  env2 == [id \in ids |-> Res(P, nd.args[(CHOOSE i \in 1..n : F.params[i].id = id) + off])]
                  env3 == IF F.expl # "" /\ off = 1 THEN (F.expl :> Res(P, nd.args[1])) @@ env2 ELSE env2
                  P2 == [Next1(P, F.body, env3, P.provs) EXCEPT !.inst = CopyInst(p, P.ni + 1), !.ni = @ + 1]
              IN Set([procs EXCEPT ![p] = P2], chans, out, Continue(p, P2, <<EvCall(p)>>))

StepPrintForm(p, P, nd) ==
    IF NeedsDup(P) THEN DupDo(p, P, P.nc)
    ELSE LET P2 == Next1(P, nd.next, P.env, P.provs)
         IN Set([procs EXCEPT ![p] = P2], chans, Append(out, nd.label), Continue(p, P2, <<EvPrint(p, nd.label)>>))

\* SPLIT: two fresh channels (created before the DUP check), a forward providing both
StepSplitForm(p, P, nd) ==
    LET from == Res(P, nd.from) IN
    IF from = SELF THEN Fail(p, "split on self")
    ELSE IF NeedsDup(P) THEN DupDo(p, [P EXCEPT !.nc = @ + 2], P.nc + 2)
    ELSE LET c1 == Append(p, P.nc + 1)
             c2 == Append(p, P.nc + 2)
             kid == Append(p, P.ns + 1)
             K == SynFwd(kid, from, PolOf(nd.from), FALSE, <<c1, c2>>)
             P2 == [Next1(P, nd.next, (nd.a.id :> c1) @@ (nd.b.id :> c2) @@ P.env, P.provs) EXCEPT !.nc = @ + 2, !.ns = @ + 1]
         IN Set((kid :> K) @@ [procs EXCEPT ![p] = P2], (c1 :> NewChan) @@ (c2 :> NewChan) @@ chans, out,
                Continue(p, P2, <<EvSpawn(p, kid, K)>>) @@ (kid :> <<EvAt(kid, K)>>))

\* DROP: a droppable forward (on a fresh channel) takes care of the dropped channel
StepDropForm(p, P, nd) ==
    LET c == Res(P, nd.c) IN
    IF c = SELF THEN Fail(p, "drop on self")
    ELSE IF NeedsDup(P) THEN DupDo(p, P, P.nc)
    ELSE LET nc == Append(p, P.nc + 1)
             kid == Append(p, P.ns + 1)
             K == SynFwd(kid, c, PolOf(nd.c), TRUE, <<nc>>)
             P2 == [Next1(P, nd.next, P.env, P.provs) EXCEPT !.nc = @ + 1, !.ns = @ + 1]
         IN Set((kid :> K) @@ [procs EXCEPT ![p] = P2], (nc :> NewChan) @@ chans, out,
                Continue(p, P2, <<EvSpawn(p, kid, K)>>) @@ (kid :> <<EvAt(kid, K)>>))

\* a positive forward that received a message becomes the corresponding axiom on self (a fresh object made by
\* the process, like the copy made by a call)
Become0(P, m) ==
    CASE m.rule = "SND" -> [P EXCEPT !.n = 0,
                               !.syn = [k |-> "send", to |-> SelfNm, pay |-> Nm("$1", m.pol1), cont |-> Nm("$2", m.pol2)],
                               !.env = ("$1" :> m.ch1) @@ ("$2" :> m.ch2)]
      [] m.rule = "CLS" -> [P EXCEPT !.n = 0, !.syn = [k |-> "close", from |-> SelfNm], !.env = <<>>]
      [] m.rule = "SEL" -> [P EXCEPT !.n = 0,
                               !.syn = [k |-> "sel", to |-> SelfNm, label |-> m.label, cont |-> Nm("$1", m.pol1)],
                               !.env = ("$1" :> m.ch1)]
      [] m.rule = "CST" -> [P EXCEPT !.n = 0,
                               !.syn = [k |-> "cast", to |-> SelfNm, cont |-> Nm("$1", m.pol1)],
                               !.env = ("$1" :> m.ch1)]
      [] m.rule = "FWD" -> [P EXCEPT !.n = 0,
                               !.syn = [k |-> "fwd", to |-> SelfNm, from |-> Nm("$1", "nil"), drop |-> FALSE],
                               !.env = ("$1" :> m.provs[1]), !.provs = m.provs]

Become(p, P, m) == [Become0(P, m) EXCEPT !.inst = CopyInst(p, P.ni + 1), !.ni = @ + 1]

\* ForwardForm.Transition: no DUP check, no cancellation poll
StepFwdForm(p, P, nd) ==
    LET from == Res(P, nd.from)
        pol  == PolOf(nd.from) IN
    IF Res(P, nd.to) # SELF THEN Fail(p, "should forward on self")
    ELSE IF pol \notin {"pos", "neg"} THEN Fail(p, "forward has an unknown polarity")
    ELSE IF pol = "neg"
    THEN IF nd.drop
         THEN SendMsg(p, P, from, Msg("GC", "", NIL, "nil", NIL, "nil", <<>>), "forward")
         ELSE SendMsg(p, P, from, Msg("FWD", "", NIL, "nil", NIL, "nil", P.provs), "forward")
    ELSE /\ CanTake(from)
         /\ LET B == Taken(from) IN
            IF ~nd.drop
            THEN IF B.m.rule \notin {"SND", "CLS", "SEL", "CST", "FWD"} THEN Fail(p, "positive forward: unexpected message")
                 ELSE ContinueWith(p, Become(p, P, B.m), from, B)
            ELSE \* droppable: swallow the message, drop its payload channels
                 LET pay == SelectSeq(<<[c |-> B.m.ch1, pol |-> B.m.pol1], [c |-> B.m.ch2, pol |-> B.m.pol2]>>, LAMBDA x : x.c # NIL)
                     m == Len(pay)
                     Ch(i)  == Append(p, P.nc + i)
                     Pid(i) == Append(p, P.ns + i)
                     Kid(i) == SynFwd(Pid(i), pay[i].c, pay[i].pol, TRUE, <<Ch(i)>>)
                     kids == [x \in {Pid(i) : i \in 1..m} |-> Kid(CHOOSE i \in 1..m : x = Pid(i))]
                     newchans == [x \in {Ch(i) : i \in 1..m} |-> NewChan]
                     mine == <<EvMsg("recv", p, from, B.m)>> \o [i \in 1..m |-> EvSpawn(p, Pid(i), Kid(i))] \o <<EvEnd(p, "terminate")>>
                     theirs == [x \in DOMAIN kids |-> <<EvAt(x, kids[x])>>]
                 IN Set(kids @@ [x \in DOMAIN B.procsB \ {p} |-> B.procsB[x]], newchans @@ B.chansB, out,
                        (p :> mine) @@ theirs @@ B.emitB)

Step(p) ==
    /\ err = <<>>
    /\ p \in DOMAIN procs
    /\ procs[p].st = "run"
    /\ LET P == procs[p]
           nd == Node(P) IN
       CASE nd.k = "send"  -> StepSendForm(p, P, nd)
         [] nd.k = "recv"  -> StepRecvForm(p, P, nd)
         [] nd.k = "sel"   -> StepSelForm(p, P, nd)
         [] nd.k = "case"  -> StepCaseForm(p, P, nd)
         [] nd.k = "new"   -> StepNewForm(p, P, nd)
         [] nd.k = "call"  -> StepCallForm(p, P, nd)
         [] nd.k = "close" -> StepCloseForm(p, P, nd)
         [] nd.k = "wait"  -> StepWaitForm(p, P, nd)
         [] nd.k = "fwd"   -> StepFwdForm(p, P, nd)
         [] nd.k = "split" -> StepSplitForm(p, P, nd)
         [] nd.k = "cast"  -> StepCastForm(p, P, nd)
         [] nd.k = "shift" -> StepShiftForm(p, P, nd)
         [] nd.k = "drop"  -> StepDropForm(p, P, nd)
         [] nd.k = "print" -> StepPrintForm(p, P, nd)
         [] OTHER          -> Fail(p, "unknown form")

(***************************************************************************)
(* Initial state: InitializeProcesses (CreateChannelForEachProcess,         *)
(* SubstituteNameInitialization, StartTransitions)                          *)
(***************************************************************************)
TopChans(i) ==  \* provider channels of top-level process i: numbered in declaration order
    LET before == FoldLeft(LAMBDA a, k : a + Len(Corpus[pi].prog.procs[k].provs), 0, [k \in 1..(i - 1) |-> k])
    IN [j \in 1..Len(Prog.procs[i].provs) |-> <<0, before + j>>]

TopEnv ==
    [id \in UNION {{Prog.procs[i].provs[j] : j \in 1..Len(Prog.procs[i].provs)} : i \in 1..Len(Prog.procs)} |->
        LET i == CHOOSE i \in 1..Len(Prog.procs) : \E j \in 1..Len(Prog.procs[i].provs) : Prog.procs[i].provs[j] = id
            j == CHOOSE j \in 1..Len(Prog.procs[i].provs) : Prog.procs[i].provs[j] = id
        IN TopChans(i)[j]]

InitProcs == [p \in {<<i>> : i \in 1..Len(Prog.procs)} |-> Proc(Prog.procs[p[1]].body, TopEnv, TopChans(p[1]), <<0>>)]
InitChans == [c \in UNION {{TopChans(i)[j] : j \in 1..Len(Prog.procs[i].provs)} : i \in 1..Len(Prog.procs)} |-> NewChan]

Init ==
    /\ mode \in Modes
    /\ pi \in 1..Len(Corpus)
    /\ procs = InitProcs
    /\ chans = InitChans
    /\ out = <<>>
    /\ err = <<>>
    /\ emit = <<>>

Next == \E p \in DOMAIN procs : Step(p)

Spec == Init /\ [][Next]_vars

(***************************************************************************)
(* Properties                                                               *)
(***************************************************************************)
\* CanStep(p): process p can take a step (explicit form of ENABLED Step(p); CanStepIsEnabled checks it)
CanStep(p) ==
    LET P == procs[p]
        nd == Node(P)
        self1 == IF Len(P.provs) > 0 THEN P.provs[1] ELSE NIL
        Put(c) == c \in DOMAIN chans /\ (chans[c].closed \/ Len(chans[c].buf) = 0)
        Get(c) == c = NIL \/ CanTake(c) IN
    /\ err = <<>>
    /\ P.st = "run"
    /\ CASE nd.k \in {"new", "call", "print"} -> TRUE
         [] nd.k = "split" -> TRUE
         [] nd.k = "drop"  -> TRUE
         [] nd.k = "send"  -> IF Res(P, nd.to) = SELF THEN NeedsDup(P) \/ Put(self1)
                              ELSE Res(P, nd.cont) # SELF \/ NeedsDup(P) \/ Put(Res(P, nd.to))
         [] nd.k = "sel"   -> IF Res(P, nd.to) = SELF THEN NeedsDup(P) \/ Put(self1)
                              ELSE Res(P, nd.cont) # SELF \/ NeedsDup(P) \/ Put(Res(P, nd.to))
         [] nd.k = "cast"  -> IF Res(P, nd.to) = SELF THEN NeedsDup(P) \/ Put(self1)
                              ELSE Res(P, nd.cont) # SELF \/ NeedsDup(P) \/ Put(Res(P, nd.to))
         [] nd.k = "close" -> Res(P, nd.from) # SELF \/ NeedsDup(P) \/ Put(self1)
         [] nd.k = "recv"  -> NeedsDup(P) \/ Get(IF Res(P, nd.from) = SELF THEN self1 ELSE Res(P, nd.from))
         [] nd.k = "case"  -> NeedsDup(P) \/ Get(IF Res(P, nd.from) = SELF THEN self1 ELSE Res(P, nd.from))
         [] nd.k = "shift" -> NeedsDup(P) \/ Get(IF Res(P, nd.from) = SELF THEN self1 ELSE Res(P, nd.from))
         [] nd.k = "wait"  -> Res(P, nd.to) = SELF \/ NeedsDup(P) \/ Get(Res(P, nd.to))
         [] nd.k = "fwd"   -> \/ Res(P, nd.to) # SELF
                              \/ PolOf(nd.from) \notin {"pos", "neg"}
                              \/ (PolOf(nd.from) = "neg" /\ Put(Res(P, nd.from)))
                              \/ (PolOf(nd.from) = "pos" /\ CanTake(Res(P, nd.from)))
         [] OTHER -> TRUE

Quiescent == \A p \in DOMAIN procs : ~CanStep(p)
CanStepIsEnabled == \A p \in DOMAIN procs : CanStep(p) <=> ENABLED Step(p)

\* C01: no runtime protocol error, no Go panic
NoProtocolError == err = <<>>

\* every channel carries at most one message in its life (hence an async send never blocks)
OneMessagePerChannel == \A c \in DOMAIN chans : chans[c].puts <= 1 /\ Len(chans[c].buf) <= 1

\* at most one parked sender / one listener per channel
Listening(q) ==
    LET Q == procs[q]
        nd == Node(Q)
        self1 == IF Len(Q.provs) > 0 THEN Q.provs[1] ELSE NIL IN
    IF Q.st # "run" THEN NIL
    ELSE CASE nd.k = "recv"  -> IF Res(Q, nd.from) = SELF THEN self1 ELSE Res(Q, nd.from)
           [] nd.k = "case"  -> IF Res(Q, nd.from) = SELF THEN self1 ELSE Res(Q, nd.from)
           [] nd.k = "shift" -> IF Res(Q, nd.from) = SELF THEN self1 ELSE Res(Q, nd.from)
           [] nd.k = "wait"  -> Res(Q, nd.to)
           [] nd.k = "fwd"   -> IF PolOf(nd.from) = "pos" THEN Res(Q, nd.from) ELSE NIL
           [] OTHER          -> NIL
OneListener == \A p, q \in DOMAIN procs : (p # q /\ Listening(p) # NIL /\ ~NeedsDup(procs[p]) /\ ~NeedsDup(procs[q]))
                                           => Listening(p) # Listening(q)

\* C02: at quiescence nothing is stuck waiting for a message; async: nobody is left at all
QuiescentClean ==
    (err = <<>> /\ Quiescent) =>
        IF mode = "async" THEN DOMAIN procs = {}
        ELSE \A p \in DOMAIN procs : procs[p].st = "sent"   \* parked senders only, never a blocked receiver

\* C03/C04: the printed multiset at quiescence is the expected one (given with the corpus entry)
BagOf(s) == [x \in {s[i] : i \in 1..Len(s)} |-> Cardinality({i \in 1..Len(s) : s[i] = x})]
Expect == Corpus[pi].expect
ExpectedOutcome ==
    (err = <<>> /\ Quiescent /\ Expect # <<"?">>) => BagOf(out) = BagOf(Expect)

\* C13 (ownership discipline): the sub-trees owned by two live processes never overlap - a process body is
\* mutated in place by substitution, so a shared node would be an unsynchronised concurrent access.
RECURSIVE SubSize(_, _)
SubSize(T, n) ==
    LET nd == T[n] IN
    CASE nd.k \in {"recv", "split", "wait", "shift", "drop", "print"} -> 1 + SubSize(T, nd.next)
      [] nd.k = "case" -> LET Add(a, b) == a + SubSize(T, b.next) IN FoldLeft(Add, 1, nd.br)
      [] nd.k = "new"  -> 1 + SubSize(T, nd.body) + SubSize(T, nd.next)
      [] OTHER -> 1
SizeTab == [i \in 1..Len(Corpus) |-> [n \in 1..Len(Corpus[i].prog.nodes) |-> SubSize(Corpus[i].prog.nodes, n)]]
TreeOf(P) == IF P.n = 0 THEN {<<P.inst, 0>>} ELSE {<<P.inst, m>> : m \in P.n..(P.n + SizeTab[pi][P.n] - 1)}
NoSharedTree == \A p, q \in DOMAIN procs : p # q => TreeOf(procs[p]) \cap TreeOf(procs[q]) = {}

StateBound == Cardinality(DOMAIN chans) <= MaxChans

\* states are compared without the event annotations and without the print order
View == <<mode, pi, procs, chans, BagOf(out), err>>
ViewOrdered == <<mode, pi, procs, chans, out, err>>
=============================================================================
