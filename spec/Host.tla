-------------------------------- MODULE Host --------------------------------
(***************************************************************************)
(* One host process parses, typechecks and executes a HISTORY of programs   *)
(* one after another (the web server, the benchmark driver, the test suite  *)
(* and the verification drivers all do this).  C19: every program gets the  *)
(* verdict and outcome it has alone in a fresh process.                      *)
(*                                                                         *)
(* What survives a run inside the host (read off parser.ParseString,         *)
(* process.Typecheck, process.InitializeProcesses):                          *)
(*   - goroutines of the run that are parked for ever (a sender on a         *)
(*     top-level channel nobody reads, the heartbeat and monitor loops       *)
(*     after cancellation): they hold references to objects of THEIR OWN     *)
(*     run only (RuntimeEnvironment, context, channels, AST);                *)
(*   - nothing else: every parse builds a fresh lexer, environment and AST,  *)
(*     every run a fresh RuntimeEnvironment; the package-level variables are *)
(*     read-only tables.                                                     *)
(* The model keeps, per run, the set of objects it created and the leftover  *)
(* entities with the objects they can reach.  Isolation is the invariant     *)
(* that no entity reaches an object of another run and that no run reads an  *)
(* object it did not create; Outcome is then a function of the program.      *)
(*                                                                         *)
(* Deviation actions (guarded by Allowed) describe the ways isolation was or *)
(* could be broken: Dev_F14_LateWorker (the checker goroutine of a rejected  *)
(* program keeps running and can kill the host during a later run - the      *)
(* pinned commit, repaired by b126ced) and Dev_SharedTable (a definition     *)
(* table reused across parses).  With Allowed = {} TLC proves the properties; *)
(* with a deviation allowed it produces the corresponding counterexample.     *)
(*                                                                         *)
(* Mode = "conform": the histories executed by the real driver in ONE        *)
(* process (VERIF_TRACES) are checked against the outcomes measured for each  *)
(* program ALONE in a fresh process: invariant HistoryOK.                     *)
(***************************************************************************)
EXTENDS Integers, Sequences, FiniteSets, TLC, Json, IOUtils

CONSTANTS Mode, Allowed, MaxLen

Classes == {"unparseable", "rejected", "rejected_late",   \* rejected_late: rejected, and its checker would have more (crashing) work to do
            "runs_clean",                                  \* accepted, runs to completion, nothing left behind
            "runs_parks"}                                  \* accepted, leaves parked goroutines (synchronous mode survivors)

Data == IF Mode = "conform" THEN JsonDeserialize(IOEnv.VERIF_TRACES) ELSE [alone |-> <<>>, histories |-> <<>>]
   \* [alone |-> [progid |-> outcome record], histories |-> Seq(Seq([prog |-> progid, obs |-> outcome record]))]

VARIABLES hist,      \* model: the classes run so far
          objs,      \* run index -> set of objects created by that run
          left,      \* leftover entities: set of [run, reach : set of objects, kind]
          table,     \* Dev_SharedTable: definitions that survived (model of a shared table)
          result,    \* run index -> outcome observed for that run
          host,      \* "alive" | "dead"
          hi         \* conform: index of the history being judged
vars == <<hist, objs, left, table, result, host, hi>>

Obj(r, k) == <<r, k>>
Alone(c) == CASE c = "unparseable" -> "syntax-error"
              [] c \in {"rejected", "rejected_late"} -> "type-error"
              [] OTHER -> "ran"

Init ==
    /\ hist = <<>> /\ objs = <<>> /\ left = {} /\ table = {} /\ result = <<>> /\ host = "alive"
    /\ IF Mode = "conform" THEN hi \in 1..Len(Data.histories) ELSE hi = 0

\* one complete run of a program of class c
Run(c) ==
    /\ Mode = "model" /\ host = "alive" /\ Len(hist) < MaxLen
    /\ LET r == Len(hist) + 1
           mine == {Obj(r, "lexer"), Obj(r, "env"), Obj(r, "ast")} \cup
                   (IF c \in {"runs_clean", "runs_parks"} THEN {Obj(r, "re"), Obj(r, "ctx"), Obj(r, "chans")} ELSE {})
           polluted == "SharedTable" \in Allowed /\ table # {} /\ c \notin {"unparseable"}
       IN /\ hist' = Append(hist, c)
          /\ objs' = Append(objs, mine)
          /\ left' = left \cup (IF c = "runs_parks" THEN {[run |-> r, kind |-> "parked", reach |-> {Obj(r, "re"), Obj(r, "ctx"), Obj(r, "chans"), Obj(r, "ast")}]} ELSE {})
                          \cup (IF c \in {"runs_clean", "runs_parks"} THEN {[run |-> r, kind |-> "heartbeat", reach |-> {Obj(r, "re"), Obj(r, "ctx")}]} ELSE {})
                          \cup (IF c = "rejected_late" /\ "F14" \in Allowed THEN {[run |-> r, kind |-> "checker", reach |-> {Obj(r, "env"), Obj(r, "ast")}]} ELSE {})
          /\ table' = IF "SharedTable" \in Allowed /\ c # "unparseable" THEN table \cup {r} ELSE table
          /\ result' = Append(result, IF polluted THEN "polluted" ELSE Alone(c))
          /\ UNCHANGED <<host, hi>>

\* Dev_F14: the leftover checker goroutine of an earlier run goes on and crashes: the host dies, whatever is running now
Dev_F14_LateWorker ==
    /\ "F14" \in Allowed /\ host = "alive"
    /\ \E e \in left : e.kind = "checker"
    /\ host' = "dead"
    /\ UNCHANGED <<hist, objs, left, table, result, hi>>

Next == (\E c \in Classes : Run(c)) \/ Dev_F14_LateWorker
Spec == Init /\ [][Next]_vars

(***************************************************************************)
(* C19                                                                       *)
(***************************************************************************)
\* every entity that survives a run reaches objects of its own run only
Isolation == \A e \in left : \A o \in e.reach : o[1] = e.run /\ o \in objs[e.run]
\* objects of different runs are disjoint (fresh lexer / environment / AST / runtime environment per run)
FreshObjects == \A i, j \in 1..Len(objs) : i # j => objs[i] \cap objs[j] = {}
\* each run gets the outcome the program has alone, and the host survives
OutcomeIsFunctionOfProgram == \A i \in 1..Len(hist) : result[i] = Alone(hist[i])
HostSurvives == host = "alive"

(***************************************************************************)
(* conformance of real histories                                             *)
(***************************************************************************)
HistoryOK ==
    Mode = "conform" =>
        LET h == Data.histories[hi] IN
        \A i \in 1..Len(h) : h[i].obs = Data.alone[h[i].prog]
=============================================================================
