------------------------------- MODULE Print -------------------------------
(***************************************************************************)
(* C15: printing a session type and parsing the text back yields the same   *)
(* type, so two different types never print identically.                    *)
(*                                                                          *)
(* The module specifies both directions on token sequences:                 *)
(*   Show(t)   - the tokens a printer must produce: the operators * and -*  *)
(*               are right associative and a shift extends as far to the    *)
(*               right as possible, so exactly a LEFT operand that is       *)
(*               itself an output, input or shift type needs parentheses;   *)
(*   Parse(s)  - the type sub-grammar of parser/parser.y as a recursive     *)
(*               descent (shift | operand [op type]; operand = 1 | name |   *)
(*               ( type ) | +{..} | &{..}).                                 *)
(* Model mode: Parse(Show(t)) = t for every written type up to the bound    *)
(* (SpecRoundTrip) - Show has a left inverse, hence is injective.           *)
(* Conform mode: a log of the real printer / lexer / parser,                *)
(*   Cases[i] = [t, ann, defs, toks, reparsed, printed, key],               *)
(* is validated: the real tokens parse (by THIS grammar) to the written     *)
(* form of t (PrintOK), the real parser reads them as this grammar does and *)
(* assigns the modes ModeInfer specifies (ParserOK), the round trip is the  *)
(* identity (RoundTrip), and cases that print alike are the same written    *)
(* type (NoCollision; the log is sorted by printed text).                   *)
(***************************************************************************)
EXTENDS PrintLib

CONSTANTS Mode,     \* "model" | "conform"
          Depth     \* model mode: nesting depth of the universe

\* ---------------------------------------------------------------- model mode: all written types up to the bound
Atoms0 == {Unit(Unset), Name("A", Unset)}
ShiftPairs == {<<"lin", "rep">>, <<"aff", "lin">>}
RECURSIVE Univ(_)
Univ(d) ==
    IF d = 0 THEN Atoms0
    ELSE LET S == Univ(d - 1) IN
         S \cup {Send(a, b, Unset) : a, b \in S} \cup {Recv(a, b, Unset) : a, b \in S}
           \cup {Sel(<<Opt("a", a)>>, Unset) : a \in S} \cup {Bra(<<Opt("a", a), Opt("b", b)>>, Unset) : a, b \in S}
           \cup {UpT(p[1], p[2], a) : p \in ShiftPairs, a \in S} \cup {DownT(p[2], p[1], a) : p \in ShiftPairs, a \in S}

SpecRoundTripAt(t) == LET r == Parse(Show(t)) IN r.ok /\ r.t = t

\* ---------------------------------------------------------------- conform mode
Cases == IF Mode = "conform" THEN JsonDeserialize(IOEnv.VERIF_CASES) ELSE <<>>
   \* [t |-> moded type, ann |-> head annotation used for re-parsing ("" for a shift), defs |-> written definitions of the names used,
   \*  toks |-> the real lexer's tokens of the real printed text ("?" = a token outside the type language), reparsed |-> the type the real
   \*  parser built from  type T = ann <printed text>  ([k |-> "none"] when it did not parse), printed |-> the text]

VARIABLES i, u   \* conform: index into Cases;  model: the written type being examined (one state per type)
vars == <<i, u>>

Init == IF Mode = "conform" THEN i = 1 /\ u = NoType
        ELSE i = 0 /\ u \in Univ(Depth)
Next == Mode = "conform" /\ i < Len(Cases) /\ i' = i + 1 /\ UNCHANGED u
Spec == Init /\ [][Next]_vars

\* model mode: the printer specification has a left inverse (hence is injective) on every written type of the universe
SpecRoundTrip == Mode = "model" => SpecRoundTripAt(u)

Case == Cases[i]
Active == Mode = "conform" /\ Len(Cases) > 0
W(c) == Append(c.defs, [name |-> "T", ann |-> c.ann, t |-> Strip(c.t)])

\* the real printed text, read by the specified grammar, is the written form of the type
PrintOK == Active => LET r == Parse(Case.toks) IN r.ok /\ r.t = Strip(Case.t)

\* the real parser reads the real printed text as the specified grammar does, with the modes ModeInfer assigns
ParserOK == Active => LET r == Parse(Case.toks) IN
              IF r.ok THEN Case.reparsed = InferType(Append(Case.defs, [name |-> "T", ann |-> Case.ann, t |-> r.t]), Case.ann, r.t)
              ELSE Case.reparsed = NoType

\* C15: print then parse (under the same head mode) is the identity
RoundTrip == Active => Case.reparsed = Case.t

\* C15: two different types never print identically (the log is sorted by printed text, so equal texts are adjacent)
NoCollision == (Active /\ i > 1 /\ Cases[i - 1].printed = Case.printed) => Strip(Cases[i - 1].t) = Strip(Case.t)

\* the cases themselves are meaningful: the type handed to the printer is what ModeInfer assigns to its own written form
InputsConsistent == Active => Case.t = InferType(W(Case), Case.ann, Strip(Case.t))
=============================================================================
