-------------------------------- MODULE Sax --------------------------------
(***************************************************************************)
(* Reference semantics of Grits programs: the futures-style reading of the *)
(* semi-axiomatic sequent calculus (SAX).  It shares no mechanism with the  *)
(* interpreter (no forward processes, no duplication protocol, no           *)
(* polarities, no provider lists, no messages):                             *)
(*                                                                         *)
(*   - a channel is a write-once cell; a cut allocates a cell and starts a  *)
(*     thread whose destination it is;                                      *)
(*   - positive axioms on the destination (send self, self.l, close self,   *)
(*     cast self) WRITE A VALUE and end the thread;                         *)
(*   - negative providers (recv self, case self, shift self) WRITE THEIR    *)
(*     CONTINUATION CLOSURE and end the thread;                             *)
(*   - positive clients (recv x, case x, wait x, shift x) READ a value;     *)
(*   - negative clients (send x, x.l, cast x) INSTANTIATE the stored        *)
(*     closure with their own destination and become it;                    *)
(*   - fwd self x copies the filled cell x into the destination;            *)
(*   - cells are never consumed, so split is aliasing and drop is a no-op.  *)
(*                                                                         *)
(* Programs are the same node tables GritsRT interprets (dumped by the real *)
(* front end).  Thread and cell ids are creator-relative paths.             *)
(*                                                                         *)
(* Sched = "all"  : every interleaving (used to check that the reference    *)
(*                  itself is confluent: one printed multiset, no stuck     *)
(*                  thread, single assignment).                             *)
(* Sched = "det"  : one canonical run (silent steps first, then the first    *)
(*                  enabled print).                                         *)
(* Sched = "norm" : silent steps first, in a fixed order; only the choice   *)
(*                  between enabled prints branches.  Silent steps commute  *)
(*                  with everything and never disable anything, so the      *)
(*                  print sequences of "norm" are exactly those of "all".   *)
(***************************************************************************)
EXTENDS Integers, Sequences, FiniteSets, TLC, Json, IOUtils, SequencesExt, CSV

CONSTANTS Sched, MaxThreads, EmitOn

Corpus == JsonDeserialize(IOEnv.VERIF_CORPUS)
   \* sequence of [name, prog |-> dump, expect |-> Seq(label) or <<"?">>]

VARIABLES pi,      \* index of the program
          thr,     \* thread id -> [n, env, dest, nc]
          cells,   \* address -> [k |-> "empty"] | value | closure
          out,     \* printed labels in order
          err,     \* <<>> or <<why, thread>>
          spawned  \* threads created so far (bound)

svars == <<pi, thr, cells, out, err, spawned>>

NIL  == <<>>
SELF == <<-1>>

Prog  == Corpus[pi].prog
Nodes == Prog.nodes
Funcs == Prog.funcs

Empty == [k |-> "empty"]
Val(tag, label, a, b) == [k |-> "val", tag |-> tag, label |-> label, a |-> a, b |-> b]
Clo(n, env) == [k |-> "clo", n |-> n, env |-> env]

\* the cell an occurrence denotes in thread T
R(T, nm) == IF nm.self THEN T.dest
            ELSE IF nm.id \in DOMAIN T.env
                 THEN (IF T.env[nm.id] = SELF THEN T.dest ELSE T.env[nm.id])
                 ELSE NIL
\* the same, as stored in an environment (the destination stays symbolic: it moves with a closure)
RM(T, nm) == IF R(T, nm) = T.dest THEN SELF ELSE R(T, nm)

Filled(a) == a \in DOMAIN cells /\ cells[a].k # "empty"
IsVal(a)  == a \in DOMAIN cells /\ cells[a].k = "val"
IsClo(a)  == a \in DOMAIN cells /\ cells[a].k = "clo"

Branch(nd, l) == LET idx == {i \in 1..Len(nd.br) : nd.br[i].label = l}
                 IN IF idx = {} THEN [label |-> "", next |-> 0]
                    ELSE nd.br[CHOOSE i \in idx : \A j \in idx : i <= j]

Lookup(fn, arity) ==
    LET idx == {i \in 1..Len(Funcs) : Funcs[i].name = fn /\ (Len(Funcs[i].params) = arity \/ Len(Funcs[i].params) = arity - 1)}
    IN IF idx = {} THEN 0 ELSE CHOOSE i \in idx : \A j \in idx : i <= j

(***************************************************************************)
(* Enabledness of a thread: it waits only for the cell it reads.            *)
(***************************************************************************)
Reads(T) ==  \* the cell whose content the next step of T needs, NIL if none
    LET nd == Nodes[T.n] IN
    CASE nd.k \in {"send", "sel", "cast"} -> IF R(T, nd.to) = T.dest THEN NIL ELSE R(T, nd.to)
      [] nd.k \in {"recv", "case", "shift"} -> IF R(T, nd.from) = T.dest THEN NIL ELSE R(T, nd.from)
      [] nd.k = "wait" -> R(T, nd.to)
      [] nd.k = "fwd"  -> R(T, nd.from)
      [] OTHER -> NIL

Enabled(t) == err = <<>> /\ (Reads(thr[t]) = NIL \/ Filled(Reads(thr[t])) \/ Reads(thr[t]) \notin DOMAIN cells)
IsPrint(t) == Nodes[thr[t].n].k = "print"
SilentEn == {t \in DOMAIN thr : Enabled(t) /\ ~IsPrint(t)}
PrintEn  == {t \in DOMAIN thr : Enabled(t) /\ IsPrint(t)}
Terminal == SilentEn = {} /\ PrintEn = {}

(***************************************************************************)
(* Steps                                                                    *)
(***************************************************************************)
Fail(t, why) == /\ err' = <<why, t>>
                /\ UNCHANGED <<pi, thr, cells, out, spawned>>

Del(t) == [u \in DOMAIN thr \ {t} |-> thr[u]]

\* write the destination (single assignment) and end
Write(t, T, v) ==
    IF T.dest \notin DOMAIN cells THEN Fail(t, "no destination")
    ELSE IF cells[T.dest].k # "empty" THEN Fail(t, "cell written twice")
    ELSE /\ cells' = [cells EXCEPT ![T.dest] = v]
         /\ thr' = Del(t)
         /\ UNCHANGED <<pi, out, err, spawned>>

Go(t, T2) == /\ thr' = [thr EXCEPT ![t] = T2]
             /\ UNCHANGED <<pi, cells, out, err, spawned>>

\* thread t (destination T.dest) becomes the stored continuation: node n2, closure environment plus binders
Become(t, T, n2, env2) == Go(t, [T EXCEPT !.n = n2, !.env = env2])

Step(t) ==
    LET T  == thr[t]
        nd == Nodes[T.n] IN
    CASE nd.k = "send" ->
           LET to == R(T, nd.to) IN
           IF to = T.dest THEN Write(t, T, Val("SND", "", R(T, nd.pay), R(T, nd.cont)))
           ELSE IF to = NIL \/ to \notin DOMAIN cells THEN Fail(t, "unbound channel")
           ELSE IF R(T, nd.cont) # T.dest THEN Fail(t, "send: continuation should be self")
           ELSE IF ~IsClo(to) THEN Fail(t, "send to a positive cell")
           ELSE LET C == cells[to]  cn == Nodes[C.n] IN
                IF cn.k # "recv" THEN Fail(t, "send meets a non-receive continuation")
                ELSE Become(t, T, cn.next, (cn.pay.id :> R(T, nd.pay)) @@ (cn.cont.id :> SELF) @@ C.env)
      [] nd.k = "recv" ->
           LET from == R(T, nd.from) IN
           IF from = T.dest THEN Write(t, T, Clo(T.n, T.env))
           ELSE IF from = NIL \/ from \notin DOMAIN cells THEN Fail(t, "unbound channel")
           ELSE IF ~IsVal(from) \/ cells[from].tag # "SND" THEN Fail(t, "receive meets a non-pair")
           ELSE Go(t, [T EXCEPT !.n = nd.next, !.env = (nd.pay.id :> cells[from].a) @@ (nd.cont.id :> cells[from].b) @@ @])
      [] nd.k = "sel" ->
           LET to == R(T, nd.to) IN
           IF to = T.dest THEN Write(t, T, Val("SEL", nd.label, R(T, nd.cont), NIL))
           ELSE IF to = NIL \/ to \notin DOMAIN cells THEN Fail(t, "unbound channel")
           ELSE IF R(T, nd.cont) # T.dest THEN Fail(t, "select: continuation should be self")
           ELSE IF ~IsClo(to) THEN Fail(t, "select on a positive cell")
           ELSE LET C == cells[to]  cn == Nodes[C.n] IN
                IF cn.k # "case" THEN Fail(t, "select meets a non-case continuation")
                ELSE LET b == Branch(cn, nd.label) IN
                     IF b.next = 0 THEN Fail(t, "no matching label")
                     ELSE Become(t, T, b.next, (b.pay.id :> SELF) @@ C.env)
      [] nd.k = "case" ->
           LET from == R(T, nd.from) IN
           IF from = T.dest THEN Write(t, T, Clo(T.n, T.env))
           ELSE IF from = NIL \/ from \notin DOMAIN cells THEN Fail(t, "unbound channel")
           ELSE IF ~IsVal(from) \/ cells[from].tag # "SEL" THEN Fail(t, "case meets a non-label")
           ELSE LET b == Branch(nd, cells[from].label) IN
                IF b.next = 0 THEN Fail(t, "no matching label")
                ELSE Go(t, [T EXCEPT !.n = b.next, !.env = (b.pay.id :> cells[from].a) @@ @])
      [] nd.k = "close" ->
           IF R(T, nd.from) # T.dest THEN Fail(t, "close on a client")
           ELSE Write(t, T, Val("CLS", "", NIL, NIL))
      [] nd.k = "wait" ->
           LET to == R(T, nd.to) IN
           IF to = T.dest THEN Fail(t, "wait on self")
           ELSE IF to = NIL \/ to \notin DOMAIN cells THEN Fail(t, "unbound channel")
           ELSE IF ~IsVal(to) \/ cells[to].tag # "CLS" THEN Fail(t, "wait meets a non-unit")
           ELSE Go(t, [T EXCEPT !.n = nd.next])
      [] nd.k = "cast" ->
           LET to == R(T, nd.to) IN
           IF to = T.dest THEN Write(t, T, Val("CST", "", R(T, nd.cont), NIL))
           ELSE IF to = NIL \/ to \notin DOMAIN cells THEN Fail(t, "unbound channel")
           ELSE IF R(T, nd.cont) # T.dest THEN Fail(t, "cast: continuation should be self")
           ELSE IF ~IsClo(to) THEN Fail(t, "cast to a positive cell")
           ELSE LET C == cells[to]  cn == Nodes[C.n] IN
                IF cn.k # "shift" THEN Fail(t, "cast meets a non-shift continuation")
                ELSE Become(t, T, cn.next, (cn.cont.id :> SELF) @@ C.env)
      [] nd.k = "shift" ->
           LET from == R(T, nd.from) IN
           IF from = T.dest THEN Write(t, T, Clo(T.n, T.env))
           ELSE IF from = NIL \/ from \notin DOMAIN cells THEN Fail(t, "unbound channel")
           ELSE IF ~IsVal(from) \/ cells[from].tag # "CST" THEN Fail(t, "shift meets a non-cast")
           ELSE Go(t, [T EXCEPT !.n = nd.next, !.env = (nd.cont.id :> cells[from].a) @@ @])
      [] nd.k = "fwd" ->
           LET from == R(T, nd.from) IN
           IF R(T, nd.to) # T.dest THEN Fail(t, "should forward on self")
           ELSE IF from = NIL \/ from \notin DOMAIN cells THEN Fail(t, "unbound channel")
           ELSE Write(t, T, cells[from])
      [] nd.k = "split" ->
           LET from == R(T, nd.from) IN
           IF from = T.dest THEN Fail(t, "split on self")
           ELSE Go(t, [T EXCEPT !.n = nd.next, !.env = (nd.a.id :> from) @@ (nd.b.id :> from) @@ @])
      [] nd.k = "drop" ->
           IF R(T, nd.c) = T.dest THEN Fail(t, "drop on self")
           ELSE Go(t, [T EXCEPT !.n = nd.next])
      [] nd.k = "new" ->
           LET c == Append(t, T.nc + 1)
               kenv == [id \in DOMAIN T.env |-> IF T.env[id] = SELF THEN T.dest ELSE T.env[id]]
               K == [n |-> nd.body, env |-> kenv, dest |-> c, nc |-> 0]
               T2 == [T EXCEPT !.n = nd.next, !.env = (nd.x.id :> c) @@ @, !.nc = @ + 1]
           IN /\ thr' = (c :> K) @@ [thr EXCEPT ![t] = T2]
              /\ cells' = (c :> Empty) @@ cells
              /\ spawned' = spawned + 1
              /\ UNCHANGED <<pi, out, err>>
      [] nd.k = "call" ->
           LET arity == Len(nd.args)
               fi == Lookup(nd.fn, arity) IN
           IF fi = 0 THEN Fail(t, "function does not exist")
           ELSE LET F == Funcs[fi]
                    n == Len(F.params)
                    off == IF arity = n THEN 0 ELSE 1
                    ids == {F.params[i].id : i \in 1..n}
                    env2 == [id \in ids |-> RM(T, nd.args[(CHOOSE i \in 1..n : F.params[i].id = id) + off])]
                    env3 == IF F.expl # "" /\ off = 1 THEN (F.expl :> RM(T, nd.args[1])) @@ env2 ELSE env2
                IN Go(t, [T EXCEPT !.n = F.body, !.env = env3])
      [] nd.k = "print" ->
           /\ out' = Append(out, nd.label)
           /\ thr' = [thr EXCEPT ![t] = [T EXCEPT !.n = nd.next]]
           /\ UNCHANGED <<pi, cells, err, spawned>>
      [] OTHER -> Fail(t, "unknown form")

(***************************************************************************)
(* Initial state: one cell per declared provider name, one thread per name  *)
(* (a declaration with several names starts several copies).                *)
(***************************************************************************)
TopAddr(i, k) ==
    LET ps == Corpus[i].prog.procs
        before == FoldLeft(LAMBDA a, x : a + Len(ps[x].provs), 0, [x \in 1..(k - 1) |-> x])
    IN [j \in 1..Len(ps[k].provs) |-> <<0, before + j>>]

TopEnv(i) ==
    LET ps == Corpus[i].prog.procs IN
    [id \in UNION {{ps[k].provs[j] : j \in 1..Len(ps[k].provs)} : k \in 1..Len(ps)} |->
        LET k == CHOOSE k \in 1..Len(ps) : \E j \in 1..Len(ps[k].provs) : ps[k].provs[j] = id
            j == CHOOSE j \in 1..Len(ps[k].provs) : ps[k].provs[j] = id
        IN TopAddr(i, k)[j]]

TopAll(i) == LET ps == Corpus[i].prog.procs IN
             UNION {{<<k, j>> : j \in 1..Len(ps[k].provs)} : k \in 1..Len(ps)}

InitThr(i) == [a \in {TopAddr(i, kj[1])[kj[2]] : kj \in TopAll(i)} |->
                 LET kj == CHOOSE kj \in TopAll(i) : TopAddr(i, kj[1])[kj[2]] = a
                 IN [n |-> Corpus[i].prog.procs[kj[1]].body, env |-> TopEnv(i), dest |-> a, nc |-> 0]]
InitCells(i) == [a \in {TopAddr(i, kj[1])[kj[2]] : kj \in TopAll(i)} |-> Empty]

Init ==
    /\ pi \in 1..Len(Corpus)
    /\ thr = InitThr(pi)
    /\ cells = InitCells(pi)
    /\ out = <<>>
    /\ err = <<>>
    /\ spawned = 0

NormStep == IF SilentEn # {} THEN Step(CHOOSE t \in SilentEn : TRUE)
            ELSE \E t \in PrintEn : Step(t)

\* one canonical run: silent steps first, then the first enabled print (used to compute the reference multiset;
\* that the choice does not matter is what OneBag checks under Sched = "all")
DetStep == IF SilentEn # {} THEN Step(CHOOSE t \in SilentEn : TRUE)
           ELSE PrintEn # {} /\ Step(CHOOSE t \in PrintEn : TRUE)

Next == IF Sched = "norm" THEN NormStep
        ELSE IF Sched = "det" THEN DetStep
        ELSE \E t \in DOMAIN thr : Enabled(t) /\ Step(t)

Spec == Init /\ [][Next]_svars

(***************************************************************************)
(* Properties of the reference itself                                       *)
(***************************************************************************)
NoError == err = <<>>

\* progress: a terminal state has no thread left (every reader found its cell filled)
Progress == (Terminal /\ err = <<>>) => DOMAIN thr = {}

BagOf(s) == [x \in {s[i] : i \in 1..Len(s)} |-> Cardinality({i \in 1..Len(s) : s[i] = x})]
Expect == Corpus[pi].expect
\* confluence: every interleaving ends with the same printed multiset (the one the normalised run printed)
OneBag == (Terminal /\ err = <<>> /\ Expect # <<"?">>) => BagOf(out) = BagOf(Expect)

\* a closure is only ever stored by a negative provider form, a value only by a positive axiom
CellsWellFormed ==
    \A a \in DOMAIN cells : cells[a].k = "clo" => Nodes[cells[a].n].k \in {"recv", "case", "shift"}

Bound == spawned <= MaxThreads

\* terminal states report their outcome (one line per terminal state)
EmitDone ==
    (EmitOn /\ (Terminal \/ err # <<>>)) =>
        CSVWrite("%1$s", <<ToJson([pi |-> pi, out |-> out, left |-> Cardinality(DOMAIN thr),
                                   err |-> IF err = <<>> THEN "" ELSE err[1]])>>, IOEnv.VERIF_OUT)

View == <<pi, thr, cells, BagOf(out), err>>
=============================================================================
