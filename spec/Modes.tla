------------------------------- MODULE Modes -------------------------------
(***************************************************************************)
(* The four modes of adjoint logic as Grits implements them (C17).          *)
(* T is the table recorded by the harness from the real Modality methods    *)
(* (CanBeDownshiftedTo, CanBeUpshiftedTo, Equals, AllowsWeakening,          *)
(* AllowsContraction, String, FullString) and from StringToMode; the laws    *)
(* are evaluated on it for all 4, 16 and 64 tuples (one TLC state each).     *)
(***************************************************************************)
EXTENDS TLC, Json, IOUtils, FiniteSets

T == JsonDeserialize(IOEnv.VERIF_MODES)
M == {"rep", "mul", "aff", "lin"}

VARIABLES m, k, j
vars == <<m, k, j>>

\* the specified order: "m can be down-shifted to k" (m >= k)
Geq(a, b) == \/ a = "rep"
             \/ a = b
             \/ b = "lin"
\* the specified structural rules
Sigma(a) == CASE a = "rep" -> {"W", "C"} [] a = "aff" -> {"W"} [] a = "mul" -> {"C"} [] a = "lin" -> {}

Down(a, b) == T.down[a][b]
Up(a, b)   == T.up[a][b]
SigmaReal(a) == (IF T.weak[a] THEN {"W"} ELSE {}) \cup (IF T.contr[a] THEN {"C"} ELSE {})

Init == m \in M /\ k \in M /\ j \in M
Next == UNCHANGED vars
Spec == Init /\ [][Next]_vars

OrderAsSpecified == Down(m, k) = Geq(m, k)
Reflexive     == Down(m, m)
Transitive    == (Down(m, k) /\ Down(k, j)) => Down(m, j)
Antisymmetric == (Down(m, k) /\ Down(k, m)) => m = k
TopBottom     == Down("rep", m) /\ Down(m, "lin")
Incomparable  == ~Down("aff", "mul") /\ ~Down("mul", "aff")
Converse      == Up(m, k) = Down(k, m)
SigmaAsSpecified == SigmaReal(m) = Sigma(m)
Monotone      == Down(m, k) => SigmaReal(k) \subseteq SigmaReal(m)
EqualsIsIdentity == T.eq[m][k] = (m = k)

\* spellings: every documented name / abbreviation denotes its mode; anything else is not a mode
Spell == [r |-> "rep", rep |-> "rep", replicable |-> "rep",
          m |-> "mul", mul |-> "mul", multicast |-> "mul",
          a |-> "aff", aff |-> "aff", affine |-> "aff",
          l |-> "lin", lin |-> "lin", linear |-> "lin"]
Spellings == /\ \A s \in DOMAIN Spell : s \in DOMAIN T.spell /\ T.spell[s] = Spell[s]
             /\ \A s \in DOMAIN T.undoc : T.undoc[s] \notin M
Names == /\ T.short[m] = m
         /\ T.full[m] = (CASE m = "rep" -> "replicable" [] m = "mul" -> "multicast" [] m = "aff" -> "affine" [] m = "lin" -> "linear")
=============================================================================
