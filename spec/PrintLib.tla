------------------------------ MODULE PrintLib ------------------------------
(***************************************************************************)
(* C15: printing a session type and parsing the text back yields the same   *)
(* type, so two different types never print identically.                    *)
(*                                                                          *)
(* The module specifies both directions on token sequences:                 *)
(*   Show(t)   - the tokens a printer must produce: the operators * and -*  *)
(*               are right associative and a shift extends as far to the    *)
(*               right as possible, so exactly a LEFT operand that is       *)
(*               itself an output, input or shift type needs parentheses;   *)
(*   Parse(s)  - the type sub-grammar of parser/parser.y as a recursive     *)
(*               descent (shift | operand [op type]; operand = 1 | name |   *)
(*               ( type ) | +{..} | &{..}).                                 *)
(* Model mode: Parse(Show(t)) = t for every written type up to the bound    *)
(* (SpecRoundTrip) - Show has a left inverse, hence is injective.           *)
(* Conform mode: a log of the real printer / lexer / parser,                *)
(*   Cases[i] = [t, ann, defs, toks, reparsed, printed, key],               *)
(* is validated: the real tokens parse (by THIS grammar) to the written     *)
(* form of t (PrintOK), the real parser reads them as this grammar does and *)
(* assigns the modes ModeInfer specifies (ParserOK), the round trip is the  *)
(* identity (RoundTrip), and cases that print alike are the same written    *)
(* type (NoCollision; the log is sorted by printed text).                   *)
(***************************************************************************)
EXTENDS ModeInfer, Json, IOUtils

Punct == {"(", ")", "*", "-*", "+", "&", "{", "}", ":", ",", "UP", "DOWN", "1", "?"}
IsId(x) == x \notin Punct

CONSTANTS Parens    \* TRUE: the printer specification; FALSE: the printer of the pinned commit (no parentheses) - rejected by Print!SpecRoundTrip

\* ---------------------------------------------------------------- printing
IsOp(t) == t.k \in {"send", "recv", "up", "down"}

RECURSIVE Show(_)
ShowLeft(t) == IF Parens /\ IsOp(t) THEN <<"(">> \o Show(t) \o <<")">> ELSE Show(t)
RECURSIVE ShowBranches(_, _)
ShowBranches(br, i) ==
    IF i > Len(br) THEN <<>>
    ELSE <<br[i].label, ":">> \o Show(br[i].t) \o (IF i < Len(br) THEN <<",">> ELSE <<>>) \o ShowBranches(br, i + 1)
Show(t) ==
    CASE t.k = "unit" -> <<"1">>
      [] t.k = "name" -> <<t.name>>
      [] t.k = "send" -> ShowLeft(t.l) \o <<"*">> \o Show(t.r)
      [] t.k = "recv" -> ShowLeft(t.l) \o <<"-*">> \o Show(t.r)
      [] t.k = "sel"  -> <<"+", "{">> \o ShowBranches(t.br, 1) \o <<"}">>
      [] t.k = "bra"  -> <<"&", "{">> \o ShowBranches(t.br, 1) \o <<"}">>
      [] t.k = "up"   -> <<t.from, "UP", t.to>> \o Show(t.t)
      [] t.k = "down" -> <<t.from, "DOWN", t.to>> \o Show(t.t)

\* ---------------------------------------------------------------- parsing
Fail == [ok |-> FALSE, t |-> NoType, rest |-> <<>>]
Ok(t, rest) == [ok |-> TRUE, t |-> t, rest |-> rest]
Drop(s, n) == SubSeq(s, n + 1, Len(s))

RECURSIVE PType(_)
RECURSIVE POperand(_)
RECURSIVE PBranches(_, _)

PType(s) ==
    IF Len(s) >= 3 /\ IsId(s[1]) /\ s[2] \in {"UP", "DOWN"} /\ IsId(s[3])
    THEN LET r == PType(Drop(s, 3)) IN
         IF r.ok THEN Ok(IF s[2] = "UP" THEN UpT(s[1], s[3], r.t) ELSE DownT(s[1], s[3], r.t), r.rest) ELSE Fail
    ELSE LET a == POperand(s) IN
         IF ~a.ok THEN Fail
         ELSE IF a.rest # <<>> /\ Head(a.rest) \in {"*", "-*"}
         THEN LET b == PType(Tail(a.rest)) IN
              IF b.ok THEN Ok(IF Head(a.rest) = "*" THEN Send(a.t, b.t, Unset) ELSE Recv(a.t, b.t, Unset), b.rest) ELSE Fail
         ELSE a

POperand(s) ==
    IF s = <<>> THEN Fail
    ELSE IF s[1] = "1" THEN Ok(Unit(Unset), Tail(s))
    ELSE IF s[1] = "(" THEN LET r == PType(Tail(s)) IN
                            IF r.ok /\ r.rest # <<>> /\ Head(r.rest) = ")" THEN Ok(r.t, Tail(r.rest)) ELSE Fail
    ELSE IF s[1] \in {"+", "&"} /\ Len(s) >= 2 /\ s[2] = "{"
         THEN LET r == PBranches(Drop(s, 2), <<>>) IN
              IF r.ok THEN Ok(IF s[1] = "+" THEN Sel(r.t, Unset) ELSE Bra(r.t, Unset), r.rest) ELSE Fail
    ELSE IF IsId(s[1]) THEN Ok(Name(s[1], Unset), Tail(s))
    ELSE Fail

\* branches: label : type { , label : type } "}"   (acc = the options read so far; result .t is the option sequence)
PBranches(s, acc) ==
    IF Len(s) >= 3 /\ IsId(s[1]) /\ s[2] = ":"
    THEN LET r == PType(Drop(s, 2)) IN
         IF ~r.ok \/ r.rest = <<>> THEN Fail
         ELSE IF Head(r.rest) = "," THEN PBranches(Tail(r.rest), Append(acc, Opt(s[1], r.t)))
         ELSE IF Head(r.rest) = "}" THEN Ok(Append(acc, Opt(s[1], r.t)), Tail(r.rest))
         ELSE Fail
    ELSE Fail

Parse(s) == LET r == PType(s) IN IF r.ok /\ r.rest = <<>> THEN r ELSE Fail

\* the written form of a moded type: modes survive only in shifts
RECURSIVE Strip(_)
Strip(t) ==
    CASE t.k = "unit" -> Unit(Unset)
      [] t.k = "name" -> Name(t.name, Unset)
      [] t.k = "send" -> Send(Strip(t.l), Strip(t.r), Unset)
      [] t.k = "recv" -> Recv(Strip(t.l), Strip(t.r), Unset)
      [] t.k = "sel"  -> Sel([i \in 1..Len(t.br) |-> Opt(t.br[i].label, Strip(t.br[i].t))], Unset)
      [] t.k = "bra"  -> Bra([i \in 1..Len(t.br) |-> Opt(t.br[i].label, Strip(t.br[i].t))], Unset)
      [] t.k = "up"   -> UpT(t.from, t.to, Strip(t.t))
      [] t.k = "down" -> DownT(t.from, t.to, Strip(t.t))
      [] OTHER -> t
=============================================================================
