----------------------------- MODULE PrintForm -----------------------------
(***************************************************************************)
(* C15, second half: a process term written in terms of self prints to a    *)
(* text that parses back to the same term.                                  *)
(*                                                                          *)
(* Cases[i] = [a |-> [nodes, root], b |-> [nodes, root], printed]: a is the *)
(* dump of a body of a parsed program, printed the text Form.String() gave  *)
(* for it, b the dump of what the real parser built from that text alone    *)
(* (the bare-expression production).  Term(T, n) is the term a node table   *)
(* denotes: constructor, the names with their self flag and explicit        *)
(* polarity mark, labels, callee and the sub-terms.  Node numbers, derived   *)
(* polarities and modes are not part of the term, and neither is the type   *)
(* annotation of a cut: Form.String() is the interpreter's display form and *)
(* leaves it out by design (name.go: printTypes = false), and  x <- new P; Q *)
(* is itself a term of the language.  SameTerm must hold for every case.    *)
(***************************************************************************)
EXTENDS PrintLib

FCases == JsonDeserialize(IOEnv.VERIF_FORMS)

VARIABLE j
FInit == j = 1
FNext == j < Len(FCases) /\ j' = j + 1
FSpec == FInit /\ [][FNext]_j

\* Marks = TRUE keeps the explicit polarity marks (+x, -x) of the occurrences
N(nm, Marks) == [id |-> nm.id, self |-> nm.self, xpol |-> IF Marks THEN nm.xpol ELSE ""]
Ty(t) == IF t.k = "none" THEN t ELSE Strip(t)

RECURSIVE Term(_, _, _)
Term(T, n, M) ==
    LET nd == T[n] IN
    CASE nd.k = "send"  -> [k |-> "send", to |-> N(nd.to, M), pay |-> N(nd.pay, M), cont |-> N(nd.cont, M)]
      [] nd.k = "recv"  -> [k |-> "recv", from |-> N(nd.from, M), pay |-> N(nd.pay, M), cont |-> N(nd.cont, M), next |-> Term(T, nd.next, M)]
      [] nd.k = "sel"   -> [k |-> "sel", to |-> N(nd.to, M), label |-> nd.label, cont |-> N(nd.cont, M)]
      [] nd.k = "case"  -> [k |-> "case", from |-> N(nd.from, M),
                            br |-> [b \in 1..Len(nd.br) |-> [label |-> nd.br[b].label, pay |-> N(nd.br[b].pay, M), next |-> Term(T, nd.br[b].next, M)]]]
      [] nd.k = "new"   -> [k |-> "new", x |-> N(nd.x, M), body |-> Term(T, nd.body, M), next |-> Term(T, nd.next, M)]
      [] nd.k = "close" -> [k |-> "close", from |-> N(nd.from, M)]
      [] nd.k = "fwd"   -> [k |-> "fwd", to |-> N(nd.to, M), from |-> N(nd.from, M)]
      [] nd.k = "split" -> [k |-> "split", a |-> N(nd.a, M), b |-> N(nd.b, M), from |-> N(nd.from, M), next |-> Term(T, nd.next, M)]
      [] nd.k = "call"  -> [k |-> "call", fn |-> nd.fn, args |-> [a \in 1..Len(nd.args) |-> N(nd.args[a], M)]]
      [] nd.k = "wait"  -> [k |-> "wait", to |-> N(nd.to, M), next |-> Term(T, nd.next, M)]
      [] nd.k = "cast"  -> [k |-> "cast", to |-> N(nd.to, M), cont |-> N(nd.cont, M)]
      [] nd.k = "shift" -> [k |-> "shift", from |-> N(nd.from, M), cont |-> N(nd.cont, M), next |-> Term(T, nd.next, M)]
      [] nd.k = "drop"  -> [k |-> "drop", c |-> N(nd.c, M), next |-> Term(T, nd.next, M)]
      [] nd.k = "print" -> [k |-> "print", label |-> nd.label, next |-> Term(T, nd.next, M)]
      [] OTHER -> [k |-> "unknown"]

FCase == FCases[j]
Parsed == FCase.b.root > 0
\* C15: the printed term parses, and parses back to the same term
SameTerm == Len(FCases) > 0 => (Parsed /\ Term(FCase.b.nodes, FCase.b.root, FALSE) = Term(FCase.a.nodes, FCase.a.root, FALSE))
\* ... including the explicit polarity marks of its names (known finding K5: Form.String() does not print them)
SameMarks == (Len(FCases) > 0 /\ Parsed) => Term(FCase.b.nodes, FCase.b.root, TRUE) = Term(FCase.a.nodes, FCase.a.root, TRUE)
=============================================================================
