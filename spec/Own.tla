-------------------------------- MODULE Own --------------------------------
(***************************************************************************)
(* Ownership discipline of the interpreter's syntax trees (C13), stated     *)
(* directly on what the hooks observe, independently of the execution       *)
(* version (async, sync, non-polarized):                                    *)
(*                                                                          *)
(*   every Form node is held by at most one live process at a time.         *)
(*                                                                          *)
(* A process body is rewritten in place (Substitute) by the goroutine of    *)
(* the process that holds it, without synchronisation; the discipline       *)
(* "CALL and DUP copy, CUT moves" is what makes that race free.  The hooks  *)
(* log, at every step of a process ("at") and at every spawn, the           *)
(* identities of the Form nodes reachable from the body.  The abstract      *)
(* state is holds : process -> set of nodes;                                *)
(*   Spawn(p, c, T) : c takes T, p gives up T (the sub-tree is moved)       *)
(*   At(p, T)       : p now holds exactly T (continuation, callee copy)     *)
(*   End(p)         : p holds nothing any more                              *)
(* and Exclusive must hold in every state of every recorded run.            *)
(* (GritsRTTrace.tla has the finer check for the polarized versions: each   *)
(* real node is one tree node <<instance, n>> of the interpreter model.)    *)
(***************************************************************************)
EXTENDS Integers, Sequences, FiniteSets, TLC, Json, IOUtils

Traces == JsonDeserialize(IOEnv.VERIF_TRACES)
   \* sequence of [id, events |-> Seq([e |-> "spawn"|"at"|"end", p, child, tree])]

VARIABLES ti,     \* trace being replayed
          l,      \* next event
          holds,  \* pid -> set of node identities
          clash   \* nodes ever held by two live processes at once, with the holders

vars == <<ti, l, holds, clash>>

Events == Traces[ti].events
Set(s) == {s[i] : i \in 1..Len(s)}

Init == ti = 1 /\ l = 1 /\ holds = <<>> /\ clash = {}

Others(p, h) == UNION {h[q] : q \in DOMAIN h \ {p}}

Take(p, T, h) ==   \* p holds exactly T from now on
    [q \in DOMAIN h \cup {p} |-> IF q = p THEN T ELSE h[q]]

Spawn ==
    /\ ti <= Len(Traces) /\ l <= Len(Events) /\ Events[l].e = "spawn"
    /\ LET ev == Events[l]
           T  == Set(ev.tree)
           h1 == IF ev.p \in DOMAIN holds THEN [holds EXCEPT ![ev.p] = @ \ T] ELSE holds
           h2 == Take(ev.child, T, h1)
       IN /\ holds' = h2
          /\ clash' = clash \cup {<<n, ev.child>> : n \in T \cap Others(ev.child, h2)}
    /\ l' = l + 1 /\ UNCHANGED ti

At ==
    /\ ti <= Len(Traces) /\ l <= Len(Events) /\ Events[l].e = "at"
    /\ LET ev == Events[l]
           T  == Set(ev.tree)
           h2 == Take(ev.p, T, holds)
       IN /\ holds' = h2
          /\ clash' = clash \cup {<<n, ev.p>> : n \in T \cap Others(ev.p, h2)}
    /\ l' = l + 1 /\ UNCHANGED ti

End ==
    /\ ti <= Len(Traces) /\ l <= Len(Events) /\ Events[l].e = "end"
    /\ holds' = [q \in DOMAIN holds \ {Events[l].p} |-> holds[q]]
    /\ l' = l + 1 /\ UNCHANGED <<ti, clash>>

Reset ==
    /\ ti <= Len(Traces) /\ l > Len(Events)
    /\ ti' = ti + 1 /\ l' = 1 /\ holds' = <<>> /\ UNCHANGED clash

Done == ti > Len(Traces) /\ UNCHANGED vars

Next == Spawn \/ At \/ End \/ Reset \/ Done
Spec == Init /\ [][Next]_vars

\* C13 (ownership): no Form node is ever held by two live processes
Exclusive == clash = {}

\* the abstract state itself (redundant with clash, kept as the readable statement)
Disjoint == \A p, q \in DOMAIN holds : p # q => holds[p] \cap holds[q] = {}

\* every event was consumed (POSTCONDITION)
AllConsumed == TLCGet("stats").diameter >= 1
=============================================================================
