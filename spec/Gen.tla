-------------------------------- MODULE Gen --------------------------------
(***************************************************************************)
(* The declarative type system of Grits (adjoint semi-axiomatic sequent     *)
(* calculus, restricted to the documented syntax and to Grits' documented   *)
(* algorithmic side conditions) as a state machine whose behaviours are     *)
(* typing derivations: every action applies one typing rule to the first    *)
(* open goal  ctx |- ? :: (self : A).  A behaviour that closes all goals of  *)
(* all declarations IS a well-typed closed program (C07: it must be          *)
(* accepted); the Mut_* actions then apply exactly one rule-violating edit   *)
(* (C05, C06, C07: it must be rejected).                                     *)
(*                                                                           *)
(* The derivation is recorded as the pre-order list of rule applications     *)
(* (pre); the harness rebuilds the term from it (each record says how many   *)
(* premises it has) and renders it with Syntax (tools/gen.py).               *)
(* TLC enumerates derivations breadth-first for small budgets and samples    *)
(* them with -simulate for larger ones.                                      *)
(***************************************************************************)
EXTENDS Bisim, Json, IOUtils, CSV

CONSTANTS Family,    \* "basic" | "modes"
          Budget,    \* rule applications per declaration
          MaxProcs,  \* top-level processes
          MaxFuns,   \* function definitions
          WithMut,   \* TRUE: finish with one mutation
          EmitOn     \* TRUE: write finished programs to IOEnv.VERIF_OUT

U(m) == Unit(m)
R == "rep"
N_(n, m) == Name(n, m)

BasicDefs == <<
    [name |-> "P", t |-> Send(U(R), U(R), R)],
    [name |-> "F", t |-> Recv(U(R), U(R), R)],
    [name |-> "C", t |-> Sel(<<Opt("a", U(R)), Opt("b", N_("P", R))>>, R)],
    [name |-> "E", t |-> Bra(<<Opt("a", U(R)), Opt("b", N_("F", R))>>, R)],
    [name |-> "N", t |-> Sel(<<Opt("z", U(R)), Opt("s", N_("N", R))>>, R)],
    [name |-> "S", t |-> Bra(<<Opt("nx", Send(U(R), N_("S", R), R)), Opt("st", U(R))>>, R)] >>

ModeDefs == <<
    [name |-> "L",  t |-> U("lin")],
    [name |-> "A",  t |-> U("aff")],
    [name |-> "M",  t |-> U("mul")],
    [name |-> "LP", t |-> Send(N_("L", "lin"), N_("L", "lin"), "lin")],
    [name |-> "LF", t |-> Recv(N_("L", "lin"), N_("L", "lin"), "lin")],
    [name |-> "AC", t |-> Sel(<<Opt("a", N_("A", "aff")), Opt("b", N_("A", "aff"))>>, "aff")],
    [name |-> "DN", t |-> DownT(R, "lin", U(R))],
    [name |-> "UP", t |-> UpT("lin", R, N_("L", "lin"))],
    [name |-> "AD", t |-> DownT("aff", "lin", N_("A", "aff"))],
    [name |-> "MQ", t |-> Bra(<<Opt("q", N_("M", "mul"))>>, "mul")] >>

Env == IF Family = "basic" THEN BasicDefs ELSE ModeDefs
T(n) == Name(n, ModeOf(DefOf(Env, n)))

Pool == Universe(Env, <<>>)
EqRel == Gfp(Env, Pool \X Pool)
Eq(a, b) == <<a, b>> \in EqRel
Hd(t) == Unf(Env, t)
Md(t) == ModeOf(t)
Positive(t) == Hd(t).k \in {"unit", "send", "sel", "down"}
Weak(m) == m \in {"rep", "aff"}
Contr(m) == m \in {"rep", "mul"}

\* function signatures that may be defined (a program picks a prefix-closed subset in this order: a function
\* may call the earlier ones, and itself once it has received something)
Par(id, t) == [id |-> id, t |-> t]
Sig(name, params, ret, expl) == [name |-> name, params |-> params, ret |-> ret, expl |-> expl]
FunSigs ==
    IF Family = "basic"
    THEN << Sig("f1", <<>>, T("N"), ""),
            Sig("f2", <<Par("a1", T("N"))>>, T("N"), ""),
            Sig("f3", <<Par("a1", T("N"))>>, U(R), ""),
            Sig("f4", <<Par("a1", T("F")), Par("a2", U(R))>>, U(R), ""),
            Sig("f5", <<>>, T("E"), "w"),
            Sig("f6", <<Par("a1", T("C"))>>, T("P"), ""),
            Sig("f7", <<>>, T("S"), "") >>
    ELSE << Sig("f1", <<Par("a1", T("L"))>>, T("L"), ""),
            Sig("f2", <<Par("a1", T("A")), Par("a2", T("L"))>>, T("L"), ""),
            Sig("f3", <<Par("a1", T("DN"))>>, T("L"), ""),
            Sig("f4", <<Par("a1", T("UP"))>>, U(R), ""),
            Sig("f5", <<Par("a1", T("M"))>>, T("LP"), ""),
            Sig("f6", <<>>, T("MQ"), "w") >>

PrcTypes ==
    IF Family = "basic" THEN {U(R), T("P"), T("F"), T("C"), T("E"), T("N"), T("S")}
    ELSE {U(R), T("L"), T("A"), T("M"), T("LP"), T("LF"), T("AC"), T("DN"), T("UP"), T("AD"), T("MQ")}

TopNames == <<"a", "b", "c", "d">>
Ids == <<"x", "y", "z", "u", "v", "k", "q", "r">>

VARIABLES funs,    \* Seq of indices into FunSigs chosen for this program
          prcs,    \* Seq of [names, t, uses] : the top-level processes (uses: indices of earlier processes consumed)
          di,      \* index of the declaration being derived (functions first, then processes)
          goals,   \* open goals of the current declaration, first = next to expand
          pre,     \* rule applications of the current declaration, pre-order
          budget,
          done,    \* finished declarations
          mut      \* <<>> or the mutation applied
vars == <<funs, prcs, di, goals, pre, budget, done, mut>>

NF == Len(funs)
NP == Len(prcs)
NDecl == NF + NP

Goal(ctx, self, sh, fi, rec) == [ctx |-> ctx, self |-> self, sh |-> sh, fi |-> fi, rec |-> rec]
Rec(r, a, b, c, l, f, args, t, n, aux) ==
    [r |-> r, a |-> a, b |-> b, c |-> c, l |-> l, f |-> f, args |-> args, t |-> t, n |-> n, aux |-> aux]
NoT == [k |-> "none"]

FirstGoal(d) ==
    IF d <= NF
    THEN LET s == FunSigs[funs[d]] IN Goal(s.params, s.ret, s.expl, d, FALSE)
    ELSE LET p == prcs[d - NF]
             ctx == [j \in 1..Len(p.uses) |-> Par(prcs[p.uses[j]].names[1], prcs[p.uses[j]].t)]
         IN Goal(ctx, p.t, "", 0, FALSE)

\* declaration of independence: every channel used is at least as strong as the provider
Indep(ctx, t) == \A j \in 1..Len(ctx) : Down(Md(ctx[j].t), Md(t))

(***************************************************************************)
(* Choice of the program skeleton                                           *)
(***************************************************************************)
SubSeqsOfFuns == {s \in UNION {[1..n -> 1..Len(FunSigs)] : n \in 0..MaxFuns} : \A a, b \in DOMAIN s : a < b => s[a] < s[b]}

\* processes: process j consumes a subset of the earlier, not yet consumed processes;
\* every negative top-level provider is consumed by a later process (a negative provider nobody uses stays blocked: finding K2)
UsesFor(ps, n, t) ==
    {s \in UNION {[1..m -> 1..(n - 1)] : m \in 0..2} :
        /\ \A a, b \in DOMAIN s : a < b => s[a] < s[b]
        /\ \A a \in DOMAIN s : \A q \in 1..Len(ps) : s[a] \notin {ps[q].uses[e] : e \in DOMAIN ps[q].uses}
        /\ \A a \in DOMAIN s : Down(Md(ps[s[a]].t), Md(t))}

RECURSIVE PrcSeqs(_)
PrcSeqs(n) ==
    IF n = 0 THEN {<<>>}
    ELSE UNION {UNION {{Append(ps, [names |-> <<TopNames[n]>>, t |-> t, uses |-> us]) : us \in UsesFor(ps, n, t)}
                       : t \in PrcTypes} : ps \in PrcSeqs(n - 1)}

Consumed(ps) == UNION {{ps[q].uses[e] : e \in DOMAIN ps[q].uses} : q \in 1..Len(ps)}
GoodPrcs(ps) == /\ Len(ps) >= 1
                /\ \A j \in 1..Len(ps) : (~Positive(ps[j].t)) => j \in Consumed(ps)
                /\ Positive(ps[Len(ps)].t)

Init ==
    /\ funs \in SubSeqsOfFuns
    /\ prcs \in {ps \in UNION {PrcSeqs(n) : n \in 1..MaxProcs} : GoodPrcs(ps)}
    /\ di = 1
    /\ goals = <<FirstGoal(1)>>
    /\ pre = <<>>
    /\ budget = Budget
    /\ done = <<>>
    /\ mut = <<>>

(***************************************************************************)
(* Helpers on the first goal                                                *)
(***************************************************************************)
G == goals[1]
CtxIds(g) == {g.ctx[j].id : j \in 1..Len(g.ctx)}
Live(g) == CtxIds(g) \cup (IF g.sh = "" THEN {} ELSE {g.sh}) \cup {TopNames[j] : j \in 1..Len(TopNames)}
           \cup {"a1", "a2", "w"}
\* the k-th smallest identifier that is not live in g
FreshIds(g) == SelectSeq(Ids, LAMBDA x : x \notin Live(g))
Without(ctx, id) == SelectSeq(ctx, LAMBDA e : e.id # id)
Has(ctx, id) == \E j \in 1..Len(ctx) : ctx[j].id = id
TyOf(ctx, id) == ctx[CHOOSE j \in 1..Len(ctx) : ctx[j].id = id].t
SelfNameOf(g) == IF g.sh = "" THEN "self" ELSE g.sh

Close(rec, newgoals) ==
    /\ pre' = Append(pre, rec @@ [live |-> [j \in 1..Len(G.ctx) |-> [id |-> G.ctx[j].id, m |-> Md(G.ctx[j].t)]]])
    /\ goals' = newgoals \o Tail(goals)
    /\ budget' = budget - 1
    /\ UNCHANGED <<funs, prcs, di, done, mut>>

Active == di <= NDecl /\ goals # <<>> /\ mut = <<>>
\* non-terminal rules need room to close what they open
Room == budget > 2 * Len(goals) + 1

(***************************************************************************)
(* Axioms (no continuation): the context must be used up exactly            *)
(***************************************************************************)
R_1R == /\ Active /\ Hd(G.self).k = "unit" /\ G.ctx = <<>>
        /\ Close(Rec("1R", SelfNameOf(G), "", "", "", "", <<>>, NoT, 0, <<>>), <<>>)

R_TensorR == /\ Active /\ Hd(G.self).k = "send" /\ Len(G.ctx) = 2
             /\ \E y, z \in CtxIds(G) :
                  /\ y # z
                  /\ Eq(TyOf(G.ctx, y), Hd(G.self).l) /\ Eq(TyOf(G.ctx, z), Hd(G.self).r)
                  /\ Close(Rec("*R", SelfNameOf(G), y, z, "", "", <<>>, NoT, 0, <<TyOf(G.ctx, y), TyOf(G.ctx, z)>>), <<>>)

R_PlusR == /\ Active /\ Hd(G.self).k = "sel" /\ Len(G.ctx) = 1
           /\ \E l \in Labels(Hd(G.self)) :
                /\ Eq(G.ctx[1].t, BranchOf(Hd(G.self), l))
                /\ Close(Rec("+R", SelfNameOf(G), G.ctx[1].id, "", l, "", <<>>, NoT, 0, <<Hd(G.self)>>), <<>>)

R_DownR == /\ Active /\ Hd(G.self).k = "down" /\ Len(G.ctx) = 1
           /\ Eq(G.ctx[1].t, Hd(G.self).t)
           /\ Close(Rec("dR", SelfNameOf(G), G.ctx[1].id, "", "", "", <<>>, NoT, 0, <<>>), <<>>)

R_Id == /\ Active /\ Len(G.ctx) = 1 /\ Eq(G.ctx[1].t, G.self)
        /\ Close(Rec("id", SelfNameOf(G), G.ctx[1].id, "", "", "", <<>>, NoT, 0, <<>>), <<>>)

R_LolliL == /\ Active /\ Len(G.ctx) = 2
            /\ \E x, y \in CtxIds(G) :
                 /\ x # y /\ Hd(TyOf(G.ctx, x)).k = "recv"
                 /\ Eq(TyOf(G.ctx, y), Hd(TyOf(G.ctx, x)).l) /\ Eq(G.self, Hd(TyOf(G.ctx, x)).r)
                 /\ Close(Rec("-oL", x, y, SelfNameOf(G), "", "", <<>>, NoT, 0, <<>>), <<>>)

R_WithL == /\ Active /\ Len(G.ctx) = 1 /\ Hd(G.ctx[1].t).k = "bra"
           /\ \E l \in Labels(Hd(G.ctx[1].t)) :
                /\ Eq(G.self, BranchOf(Hd(G.ctx[1].t), l))
                /\ Close(Rec("&L", G.ctx[1].id, SelfNameOf(G), "", l, "", <<>>, NoT, 0, <<Hd(G.ctx[1].t)>>), <<>>)

R_UpL == /\ Active /\ Len(G.ctx) = 1 /\ Hd(G.ctx[1].t).k = "up"
         /\ Eq(G.self, Hd(G.ctx[1].t).t)
         /\ Close(Rec("uL", G.ctx[1].id, SelfNameOf(G), "", "", "", <<>>, NoT, 0, <<>>), <<>>)

\* a call: the context is exactly the parameters (in some order), the provider type is the callee's
Callable(g, fj) == fj < g.fi \/ (fj = g.fi /\ g.rec) \/ g.fi = 0
ArgsFor(ctx, params) ==   \* sequences of context identifiers matching the parameter types one to one
    {as \in [1..Len(params) -> {ctx[j].id : j \in 1..Len(ctx)}] :
        /\ \A p, q \in 1..Len(params) : p # q => as[p] # as[q]
        /\ \A p \in 1..Len(params) : Eq(TyOf(ctx, as[p]), params[p].t)}

R_Call == /\ Active
          /\ \E fj \in 1..NF :
               LET s == FunSigs[funs[fj]] IN
               /\ Callable(G, fj)
               /\ Len(s.params) = Len(G.ctx) /\ Eq(s.ret, G.self)
               /\ \E as \in ArgsFor(G.ctx, s.params) :
                    \E withself \in (IF s.expl # "" THEN {TRUE, FALSE} ELSE {FALSE}) :
                      Close(Rec("call", "", "", "", "", s.name, IF withself THEN <<SelfNameOf(G)>> \o as ELSE as, NoT, 0, <<>>), <<>>)

(***************************************************************************)
(* Rules with a continuation                                                *)
(***************************************************************************)
R_LolliR == /\ Active /\ Room /\ Hd(G.self).k = "recv"
            /\ LET x == FreshIds(G)[1]
                   y == FreshIds(G)[2] IN
               Close(Rec("-oR", x, y, SelfNameOf(G), "", "", <<>>, NoT, 1, <<>>),
                     <<Goal(Append(G.ctx, Par(x, Hd(G.self).l)), Hd(G.self).r, y, G.fi, TRUE)>>)

R_WithR == /\ Active /\ Hd(G.self).k = "bra" /\ budget > 2 * (Len(goals) + Len(Hd(G.self).br))
           /\ LET y == FreshIds(G)[1]
                  br == Hd(G.self).br IN
              Close(Rec("&R", SelfNameOf(G), y, "", "", "", [j \in 1..Len(br) |-> br[j].label], NoT, Len(br), <<>>),
                    [j \in 1..Len(br) |-> Goal(G.ctx, br[j].t, y, G.fi, TRUE)])

R_UpR == /\ Active /\ Room /\ Hd(G.self).k = "up"
         /\ LET y == FreshIds(G)[1] IN
            Close(Rec("uR", y, SelfNameOf(G), "", "", "", <<>>, NoT, 1, <<>>),
                  <<Goal(G.ctx, Hd(G.self).t, y, G.fi, TRUE)>>)

R_1L == /\ Active /\ Room
        /\ \E x \in CtxIds(G) :
             /\ Hd(TyOf(G.ctx, x)).k = "unit"
             /\ Close(Rec("1L", x, "", "", "", "", <<>>, NoT, 1, <<TyOf(G.ctx, x)>>),
                      <<[G EXCEPT !.ctx = Without(G.ctx, x)]>>)

R_TensorL == /\ Active /\ Room
             /\ \E x \in CtxIds(G) :
                  /\ Hd(TyOf(G.ctx, x)).k = "send"
                  /\ LET y == FreshIds(G)[1]
                         z == FreshIds(G)[2]
                         t == Hd(TyOf(G.ctx, x)) IN
                     Close(Rec("*L", y, z, x, "", "", <<>>, NoT, 1, <<t.l, t.r>>),
                           <<[G EXCEPT !.ctx = Without(G.ctx, x) \o <<Par(y, t.l), Par(z, t.r)>>, !.rec = TRUE]>>)

R_PlusL == /\ Active
           /\ \E x \in CtxIds(G) :
                /\ Hd(TyOf(G.ctx, x)).k = "sel"
                /\ budget > 2 * (Len(goals) + Len(Hd(TyOf(G.ctx, x)).br))
                /\ LET y == FreshIds(G)[1]
                       br == Hd(TyOf(G.ctx, x)).br IN
                   Close(Rec("+L", x, y, "", "", "", [j \in 1..Len(br) |-> br[j].label], NoT, Len(br), <<>>),
                         [j \in 1..Len(br) |-> [G EXCEPT !.ctx = Without(G.ctx, x) \o <<Par(y, br[j].t)>>, !.rec = TRUE]])

R_DownL == /\ Active /\ Room
           /\ \E x \in CtxIds(G) :
                /\ Hd(TyOf(G.ctx, x)).k = "down"
                /\ LET y == FreshIds(G)[1] IN
                   Close(Rec("dL", y, x, "", "", "", <<>>, NoT, 1, <<>>),
                         <<[G EXCEPT !.ctx = Without(G.ctx, x) \o <<Par(y, Hd(TyOf(G.ctx, x)).t)>>, !.rec = TRUE]>>)

R_Drop == /\ Active /\ Room
          /\ \E x \in CtxIds(G) :
               /\ Weak(Md(TyOf(G.ctx, x)))
               /\ Close(Rec("drop", x, "", "", "", "", <<>>, NoT, 1, <<TyOf(G.ctx, x)>>),
                        <<[G EXCEPT !.ctx = Without(G.ctx, x)]>>)

R_Split == /\ Active /\ Room /\ Len(G.ctx) <= 2
           /\ \E x \in CtxIds(G) :
                /\ Contr(Md(TyOf(G.ctx, x)))
                /\ LET y == FreshIds(G)[1]
                       z == FreshIds(G)[2]
                       t == TyOf(G.ctx, x) IN
                   Close(Rec("split", y, z, x, "", "", <<>>, NoT, 1, <<t>>),
                         <<[G EXCEPT !.ctx = Without(G.ctx, x) \o <<Par(y, t), Par(z, t)>>]>>)

(***************************************************************************)
(* Cut: x : T <- new (axiom or call); P.  The spawned body is one of the    *)
(* axioms above over a sub-context; Gamma1 >= mode(T) >= mode(provider).     *)
(***************************************************************************)
CutOK(sub, t) == Indep(sub, t) /\ Down(Md(t), Md(G.self))
CutClose2(bodyrec, x, tann, t, used) ==
    Close(Rec("cut", x, "", "", "", "", <<>>, tann, 2, <<bodyrec>>),
          <<[G EXCEPT !.ctx = SelectSeq(G.ctx, LAMBDA e : e.id \notin used) \o <<Par(x, t)>>]>>)
CutClose(bodyrec, x, t, used) == CutClose2(bodyrec, x, t, t, used)

R_Cut ==
    /\ Active /\ Room /\ Len(G.ctx) <= 3
    /\ LET x == FreshIds(G)[1] IN
       \/ \E m \in ModeSet :   \* close self
            /\ U(m) \in Pool /\ CutOK(<<>>, U(m))
            /\ CutClose(Rec("1R", "self", "", "", "", "", <<>>, NoT, 0, <<>>), x, U(m), {})
       \/ \E t \in Pool : \E y, z \in CtxIds(G) :     \* send self<y, z>
            /\ y # z /\ t.k = "send" /\ Eq(TyOf(G.ctx, y), t.l) /\ Eq(TyOf(G.ctx, z), t.r)
            /\ CutOK(<<Par(y, TyOf(G.ctx, y)), Par(z, TyOf(G.ctx, z))>>, t)
            /\ CutClose(Rec("*R", "self", y, z, "", "", <<>>, NoT, 0, <<TyOf(G.ctx, y), TyOf(G.ctx, z)>>), x, t, {y, z})
       \/ \E t \in Pool : \E y \in CtxIds(G) :        \* self.l<y>
            /\ Hd(t).k = "sel" /\ t.k \in {"sel", "name"}
            /\ \E l \in Labels(Hd(t)) :
                 /\ Eq(TyOf(G.ctx, y), BranchOf(Hd(t), l))
                 /\ CutOK(<<Par(y, TyOf(G.ctx, y))>>, t)
                 /\ CutClose(Rec("+R", "self", y, "", l, "", <<>>, NoT, 0, <<Hd(t)>>), x, t, {y})
       \/ \E t \in Pool : \E y \in CtxIds(G) :        \* cast self<y>
            /\ Hd(t).k = "down" /\ Eq(TyOf(G.ctx, y), Hd(t).t)
            /\ CutOK(<<Par(y, TyOf(G.ctx, y))>>, t)
            /\ CutClose(Rec("dR", "self", y, "", "", "", <<>>, NoT, 0, <<>>), x, t, {y})
       \/ \E y, z \in CtxIds(G) :                     \* send y<z, self>
            /\ y # z /\ Hd(TyOf(G.ctx, y)).k = "recv" /\ Eq(TyOf(G.ctx, z), Hd(TyOf(G.ctx, y)).l)
            /\ LET t == Hd(TyOf(G.ctx, y)).r IN
               /\ CutOK(<<Par(y, TyOf(G.ctx, y)), Par(z, TyOf(G.ctx, z))>>, t)
               /\ CutClose(Rec("-oL", y, z, "self", "", "", <<>>, NoT, 0, <<>>), x, t, {y, z})
       \/ \E y \in CtxIds(G) :                        \* y.l<self>
            /\ Hd(TyOf(G.ctx, y)).k = "bra"
            /\ \E l \in Labels(Hd(TyOf(G.ctx, y))) :
                 LET t == BranchOf(Hd(TyOf(G.ctx, y)), l) IN
                 /\ CutOK(<<Par(y, TyOf(G.ctx, y))>>, t)
                 /\ CutClose(Rec("&L", y, "self", "", l, "", <<>>, NoT, 0, <<Hd(TyOf(G.ctx, y))>>), x, t, {y})
       \/ \E y \in CtxIds(G) :                        \* cast y<self>
            /\ Hd(TyOf(G.ctx, y)).k = "up"
            /\ LET t == Hd(TyOf(G.ctx, y)).t IN
               /\ CutOK(<<Par(y, TyOf(G.ctx, y))>>, t)
               /\ CutClose(Rec("uL", y, "self", "", "", "", <<>>, NoT, 0, <<>>), x, t, {y})
       \/ \E fj \in 1..NF :                           \* x <- new f(args)
            LET s == FunSigs[funs[fj]] IN
            /\ Callable(G, fj)
            /\ \E sub \in SUBSET CtxIds(G) :
                 /\ Cardinality(sub) = Len(s.params)
                 /\ LET subctx == SelectSeq(G.ctx, LAMBDA e : e.id \in sub) IN
                    /\ CutOK(subctx, s.ret)
                    /\ \E as \in ArgsFor(subctx, s.params) :
                         CutClose2(Rec("call", "", "", "", "", s.name, as, NoT, 0, <<>>), x, NoT, s.ret, sub)
                         \* an untyped cut: no annotation, the type of x is the callee's

(***************************************************************************)
(* Declarations                                                             *)
(***************************************************************************)
DeclInfo(d) ==
    IF d <= NF THEN [kind |-> "fun", sig |-> FunSigs[funs[d]]]
    ELSE [kind |-> "prc", names |-> prcs[d - NF].names, t |-> prcs[d - NF].t]

FinishDecl ==
    /\ di <= NDecl /\ goals = <<>> /\ mut = <<>>
    /\ done' = Append(done, DeclInfo(di) @@ [pre |-> pre])
    /\ di' = di + 1
    /\ pre' = <<>>
    /\ budget' = Budget
    /\ goals' = IF di + 1 <= NDecl THEN <<FirstGoal(di + 1)>> ELSE <<>>
    /\ UNCHANGED <<funs, prcs, mut>>

Rules == R_1R \/ R_TensorR \/ R_PlusR \/ R_DownR \/ R_Id \/ R_LolliL \/ R_WithL \/ R_UpL \/ R_Call
         \/ R_LolliR \/ R_WithR \/ R_UpR \/ R_1L \/ R_TensorL \/ R_PlusL \/ R_DownL \/ R_Drop \/ R_Split \/ R_Cut

Complete == di > NDecl

(***************************************************************************)
(* Mutations: exactly one edit that makes the program ill-typed; the class   *)
(* says which property demands its rejection.  Each guard guarantees that    *)
(* the edited program has no derivation.                                     *)
(***************************************************************************)
\* (a top-level process that does not mention another process' name simply does not use it: legal)
TopSet == {TopNames[j] : j \in 1..Len(TopNames)}
MutRec(d, k, kind, class, newrec) == [d |-> d, k |-> k, kind |-> kind, class |-> class, rec |-> newrec]

Mutate ==
    /\ WithMut /\ Complete /\ mut = <<>>
    /\ \E d \in 1..Len(done) : \E k \in 1..Len(done[d].pre) :
         LET r == done[d].pre[k] IN
         \/ /\ r.r = "1L" /\ r.a \notin TopSet   \* the wait is removed: its channel is left unused at the axiom
            /\ mut' = MutRec(d, k, "unused", "C05", [r EXCEPT !.r = "skip"])
         \/ /\ r.r = "1L"                    \* the wait is done twice: the second use has no channel
            /\ mut' = MutRec(d, k, "twice", "C05", [r EXCEPT !.r = "1Lx2"])
         \/ /\ r.r = "1L" /\ ~Weak(Md(r.aux[1]))   \* a non-weakenable channel is dropped instead of consumed
            /\ mut' = MutRec(d, k, "drop-nonweak", "C05", [r EXCEPT !.r = "drop"])
         \/ /\ r.r = "1L" /\ ~Contr(Md(r.aux[1]))  \* a non-contractable channel is split and both copies consumed
            /\ mut' = MutRec(d, k, "split-noncontr", "C05", [r EXCEPT !.r = "splitwait"])
         \/ /\ r.r = "drop" /\ r.a \notin TopSet  \* the drop is removed: a weakenable channel is silently discarded
            /\ mut' = MutRec(d, k, "implicit-weakening", "C05", [r EXCEPT !.r = "skip"])
         \/ /\ r.r = "*R" /\ ~Eq(r.aux[1], r.aux[2])   \* payload and continuation exchanged
            /\ mut' = MutRec(d, k, "swap-send", "C07", [r EXCEPT !.b = r.c, !.c = r.b])
         \/ /\ r.r = "*L" /\ ~Eq(r.aux[1], r.aux[2]) /\ Hd(r.aux[1]).k # Hd(r.aux[2]).k   \* binders exchanged
            /\ mut' = MutRec(d, k, "swap-recv", "C07", [r EXCEPT !.a = r.b, !.b = r.a])
         \/ /\ r.r \in {"+R", "&L"}           \* a label the type does not offer
            /\ mut' = MutRec(d, k, "bad-label", "C07", [r EXCEPT !.l = "nolabel"])
         \/ /\ r.r \in {"+R", "&L"}           \* another label of the type, whose branch has a different type
            /\ \E l2 \in Labels(r.aux[1]) : l2 # r.l /\ ~Eq(BranchOf(r.aux[1], l2), BranchOf(r.aux[1], r.l))
            /\ mut' = MutRec(d, k, "other-label", "C07",
                             [r EXCEPT !.l = CHOOSE l2 \in Labels(r.aux[1]) : l2 # r.l /\ ~Eq(BranchOf(r.aux[1], l2), BranchOf(r.aux[1], r.l))])
         \/ /\ r.r \in {"+L", "&R"} /\ Len(r.args) >= 2    \* a branch is missing
            /\ mut' = MutRec(d, k, "missing-branch", "C07", [r EXCEPT !.r = r.r \o "-missing"])
         \/ /\ r.r \in {"+L", "&R"}           \* a branch is written twice
            /\ mut' = MutRec(d, k, "duplicate-branch", "C07", [r EXCEPT !.r = r.r \o "-dup"])
         \/ /\ r.r = "call" /\ Len(r.args) > 0 /\ r.args[Len(r.args)] \notin {"self", "w"}   \* an argument too many
            /\ mut' = MutRec(d, k, "arity", "C07", [r EXCEPT !.args = r.args \o <<r.args[Len(r.args)]>>, !.r = "call-arity"])
         \/ /\ r.r = "1R"                     \* close on something that is not the provider
            /\ mut' = MutRec(d, k, "close-client", "C07", [r EXCEPT !.a = "nobody"])
         \/ /\ r.r \in {"*L", "-oR", "split"} \* both binders get the same name (one linear channel is lost)
            /\ mut' = MutRec(d, k, "same-binder", "C05", [r EXCEPT !.b = r.a])
         \/ /\ r.r \in {"+L", "dL", "*L", "split", "&R", "-oR", "uR"}   \* a binder (client- or provider-side) takes the name of a channel that is still owed a use
            /\ \E j \in 1..Len(r.live) : r.live[j].id \notin {r.a, r.b, r.c}
            /\ LET other == r.live[CHOOSE j \in 1..Len(r.live) : r.live[j].id \notin {r.a, r.b, r.c}].id IN
               mut' = MutRec(d, k, "shadow-binder", "C05",
                             IF r.r \in {"+L", "&R"} THEN [r EXCEPT !.b = other] ELSE [r EXCEPT !.a = other])
         \/ /\ r.r = "cut"     \* the new name of a cut takes the name of a live channel that the spawned body does not consume
            /\ LET b == r.aux[1]
                   usedb == {b.a, b.b, b.c} \cup {b.args[j] : j \in 1..Len(b.args)} IN
               /\ \E j \in 1..Len(r.live) : r.live[j].id \notin usedb \cup {r.a}
               /\ LET other == r.live[CHOOSE j \in 1..Len(r.live) : r.live[j].id \notin usedb \cup {r.a}].id IN
                  mut' = MutRec(d, k, "shadow-binder", "C05", [r EXCEPT !.a = other])
         \/ /\ r.r = "cut"     \* ... and the shadowed channel's own use (a later wait) disappears: the new channel simply takes over the name
            /\ LET b == r.aux[1]
                   usedb == {b.a, b.b, b.c} \cup {b.args[j] : j \in 1..Len(b.args)}
                   dpre == done[d].pre
                   cand == {j \in (k + 1)..Len(dpre) : dpre[j].r = "1L" /\ dpre[j].a \notin usedb \cup {r.a} /\ dpre[j].a \notin TopSet
                                                        /\ \E i \in 1..Len(r.live) : r.live[i].id = dpre[j].a} IN
               /\ cand # {}
               /\ LET j == CHOOSE j \in cand : \A j2 \in cand : j <= j2 IN
                  mut' = MutRec(d, k, "shadow-binder", "C05", [r EXCEPT !.a = dpre[j].a]) @@ [skip |-> j]
         \/ /\ k = 1 /\ done[d].kind = "prc" /\ ~Contr(Md(done[d].t))   \* a second provider name duplicates a non-contractable process
            /\ mut' = MutRec(d, 0, "multi-name", "C05", [names |-> done[d].names \o <<"e">>])
         \/ /\ k = 1 /\ Hd(IF done[d].kind = "prc" THEN done[d].t ELSE done[d].sig.ret).k = "unit"   \* the provider's mode is raised above a channel it uses
            /\ Len(r.live) > 0
            /\ \E m \in ModeSet : \E j \in 1..Len(r.live) : ~Down(r.live[j].m, m)
            /\ mut' = MutRec(d, 0, IF done[d].kind = "prc" THEN "weaker-dep-prc" ELSE "weaker-dep-fun", "C06",
                             [t |-> U(CHOOSE m \in ModeSet : \E j \in 1..Len(r.live) : ~Down(r.live[j].m, m))])
    /\ UNCHANGED <<funs, prcs, di, goals, pre, budget, done>>

Stop == ((Complete /\ ~WithMut) \/ mut # <<>>) /\ UNCHANGED vars

Next == Rules \/ FinishDecl \/ Mutate \/ Stop

Spec == Init /\ [][Next]_vars

Finished == IF WithMut THEN mut # <<>> ELSE Complete

Program == [family |-> Family, env |-> Env, decls |-> done, mut |-> mut]

EmitDone == (EmitOn /\ Finished) => CSVWrite("%1$s", <<ToJson(Program)>>, IOEnv.VERIF_OUT)

\* sanity of the generator itself: contexts respect the declaration of independence at every goal
GoalsIndependent == \A j \in 1..Len(goals) : Indep(goals[j].ctx, goals[j].self)
=============================================================================
