------------------------------- MODULE Bisim -------------------------------
(***************************************************************************)
(* Equi-recursive equality of session types as a greatest fixpoint          *)
(* (bisimilarity of the unfoldings); no variables - used by TypeEq.tla       *)
(* (validation of the real EqualType) and by Gen.tla (the typing rules).     *)
(***************************************************************************)
EXTENDS WellFormed

HeadEq(a, b) ==
    /\ a.k = b.k
    /\ a.k # "none"
    /\ CASE a.k \in {"up", "down"} -> a.from = b.from /\ a.to = b.to
         [] a.k \in {"sel", "bra"} -> a.mode = b.mode /\ Labels(a) = Labels(b) /\ Len(a.br) = Len(b.br)
         [] OTHER -> a.mode = b.mode

Kids(a, b) ==
    CASE a.k \in {"send", "recv"} -> {<<a.l, b.l>>, <<a.r, b.r>>}
      [] a.k \in {"sel", "bra"}   -> {<<BranchOf(a, l), BranchOf(b, l)>> : l \in Labels(a)}
      [] a.k \in {"up", "down"}   -> {<<a.t, b.t>>}
      [] OTHER -> {}

Refine(E, R) == {p \in R : LET ua == Unf(E, p[1])
                               ub == Unf(E, p[2])
                           IN HeadEq(ua, ub) /\ Kids(ua, ub) \subseteq R}

RECURSIVE Gfp(_, _)
Gfp(E, R) == LET R2 == Refine(E, R) IN IF R2 = R THEN R ELSE Gfp(E, R2)

Universe(E, qs) == UNION {Sub(E[i].t) : i \in 1..Len(E)}
                   \cup UNION {Sub(qs[i].a) \cup Sub(qs[i].b) : i \in 1..Len(qs)}
                   \cup {Name(E[i].name, ModeOf(E[i].t)) : i \in 1..Len(E)}

BisimRel(E, qs) == LET U == Universe(E, qs) IN Gfp(E, U \X U)

=============================================================================
