------------------------------ MODULE TypeDefs ------------------------------
(***************************************************************************)
(* C10 and C16: validation of a log of calls of the real front end           *)
(* (parser -> SetModalityTypeDef -> Typecheck) on programs that consist of   *)
(* type definitions.  Cases[i] =                                             *)
(*   [w |-> written definitions, verdict |-> "accept"|"reject"|..., modes |-> *)
(*    the definitions as the real code annotated them, unfold |-> heads of    *)
(*    the real Unfold of every name]                                          *)
(***************************************************************************)
EXTENDS ModeInfer, Json, IOUtils

Cases == JsonDeserialize(IOEnv.VERIF_CASES)

VARIABLE i
Init == i = 1
Next == i < Len(Cases) /\ i' = i + 1
Spec == Init /\ [][Next]_i

Case == Cases[i]

\* C10: accepted iff well-formed
VerdictOK == Case.verdict = (IF WFW(Case.w) THEN "accept" ELSE "reject")

\* C10: for accepted definitions Unfold reaches a structural type for every name
UnfoldOK == (Case.verdict = "accept") =>
              \A d \in 1..Len(Case.unfold) : Case.unfold[d].k \notin {"name", "none"}

\* C16: every node carries the specified mode, none is left unset
InferenceOK == (Case.verdict = "accept" /\ WFW(Case.w)) =>
                 /\ \A d \in 1..Len(Case.w) : Case.modes[d].t = Infer(Case.w)[d].t
                 /\ \A d \in 1..Len(Case.w) : Case.modes[d].mode = DefMode(Case.w, Case.w[d].name)
                 /\ \A d \in 1..Len(Case.w) : AllSet(Case.modes[d].t)

\* theorems about the specification: inference is stable under writing the inferred annotation,
\* and does not depend on the order of the definitions
Explicit(W) == [d \in 1..Len(W) |-> [W[d] EXCEPT !.ann = IF W[d].t.k \in {"up", "down"} THEN W[d].ann ELSE DefMode(W, W[d].name)]]
AnnotationStable == WFW(Case.w) => Infer(Explicit(Case.w)) = Infer(Case.w)
Reverse(W) == [d \in 1..Len(W) |-> W[Len(W) + 1 - d]]
OrderIndependent == WFW(Case.w) => \A d \in 1..Len(Case.w) : Infer(Reverse(Case.w))[Len(Case.w) + 1 - d] = Infer(Case.w)[d]
=============================================================================
