------------------------------ MODULE TypeEnum ------------------------------
(***************************************************************************)
(* The shape grammar from which the type environments of C08 / C10 / C15 /  *)
(* C16 are built: one constructor over the atoms (unit, the names) with a    *)
(* mode, every legal and some illegal shift pairs, one- and two-label        *)
(* choices in both label orders.  TLC evaluates the sets once and writes      *)
(* them out; the harness forms environments [1..n -> Shape] from them         *)
(* (exhaustively when small, seeded sample otherwise).                        *)
(***************************************************************************)
EXTENDS TypeLib, Json, IOUtils, SequencesExt

Names == {"A", "B", "C"}
Ms == {"rep", "lin"}

Atoms(m) == {Unit(m)} \cup {Name(n, m) : n \in Names}

Structural(m) ==
    Atoms(m)
    \cup {Send(a, b, m) : a, b \in Atoms(m)}
    \cup {Recv(a, b, m) : a, b \in Atoms(m)}
    \cup {Sel(<<Opt("l", a)>>, m) : a \in Atoms(m)}
    \cup {Bra(<<Opt("l", a)>>, m) : a \in Atoms(m)}
    \cup {Sel(<<Opt("l", a), Opt("r", b)>>, m) : a, b \in Atoms(m)}
    \cup {Sel(<<Opt("r", b), Opt("l", a)>>, m) : a, b \in Atoms(m)}
    \cup {Bra(<<Opt("l", a), Opt("r", b)>>, m) : a, b \in Atoms(m)}

Shifts == UNION {{UpT(f, t, a) : a \in Atoms(f)} \cup {DownT(f, t, a) : a \in Atoms(f)} : f \in Ms, t \in Ms}

\* a shift directly under a shift, all 4 x 4 mode pairs on both levels (each may be legal alone and still not chain)
Inner == UNION {{UpT(f, t, Unit(f)), DownT(f, t, Unit(f))} : f \in ModeSet, t \in ModeSet}
Shifts2 == UNION {{UpT(f, t, i) : i \in Inner} \cup {DownT(f, t, i) : i \in Inner} : f \in ModeSet, t \in ModeSet}

\* binary constructors over one-constructor components (depth 2), and choices over shifts
Deep(m) == {Send(a, b, m) : a \in Atoms(m), b \in Structural(m) \ Atoms(m)}
      \cup {Recv(a, b, m) : a \in Structural(m) \ Atoms(m), b \in Atoms(m)}
      \cup {Sel(<<Opt("l", a), Opt("r", b)>>, m) : a \in Atoms(m), b \in {x \in Shifts : x.to = m}}
      \cup {Bra(<<Opt("l", a)>>, m) : a \in {x \in Shifts : x.to = m}}
      \cup {Send(a, b, m) : a \in {x \in Shifts : x.to = m}, b \in Atoms(m)}

\* shapes nested one level deeper on the left / right (unrolled variants)
Nested(m) == {Send(Send(a, b, m), c, m) : a, b, c \in {Unit(m), Name("A", m)}}
        \cup {Send(a, Send(b, c, m), m) : a, b, c \in {Unit(m), Name("A", m)}}
        \cup {Sel(<<Opt("l", Sel(<<Opt("l", a)>>, m))>>, m) : a \in Atoms(m)}
        \cup {Recv(Recv(a, b, m), c, m) : a, b, c \in {Unit(m), Name("A", m)}}

ShapesSmall == Structural("rep")
ShapesFull  == Structural("rep") \cup Structural("lin") \cup Shifts \cup Nested("rep")

\* ill-formed material for C10: duplicate labels, unknown / mixed modes, illegal shifts
IllShapes == {Sel(<<Opt("l", Unit("rep")), Opt("l", Name("A", "rep"))>>, "rep"),
              Bra(<<Opt("l", Unit("rep")), Opt("l", Unit("rep"))>>, "rep"),
              Send(Unit("lin"), Unit("rep"), "rep"), Recv(Unit("rep"), Unit("aff"), "rep"),
              Sel(<<Opt("l", Unit("mul"))>>, "rep"), Name("Z", "rep"), Send(Name("Z", "rep"), Unit("rep"), "rep"),
              UpT("rep", "lin", Unit("rep")), DownT("lin", "rep", Unit("lin")), DownT("aff", "mul", Unit("aff")),
              UpT("lin", "rep", Unit("rep")), DownT("rep", "lin", Unit("lin")), Unit("bogus"), Send(Unit("bogus"), Unit("bogus"), "bogus")}

ASSUME JsonSerialize(IOEnv.VERIF_OUT, [small |-> SetToSeq(ShapesSmall), full |-> SetToSeq(ShapesFull), ill |-> SetToSeq(IllShapes),
                                       shift2 |-> SetToSeq(Shifts2), deep |-> SetToSeq(Deep("rep") \cup Deep("lin"))])
VARIABLE x
Init == x = 0
Next == UNCHANGED x
=============================================================================
