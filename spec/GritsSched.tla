----------------------------- MODULE GritsSched -----------------------------
(***************************************************************************)
(* Behaviours of the interpreter specifications (GritsRT for the polarized  *)
(* versions, GritsNP for the non-polarized one) written out as *plans* that  *)
(* the gate of the instrumented interpreter can follow: per action, the     *)
(* processes to let through the gate (the participants that are parked at    *)
(* it) and the processes that finish the action (log an "at" or an "end").   *)
(* This is the spec => code direction of the binding: a behaviour TLC found  *)
(* (a counterexample, or a sampled run reaching a rare schedule) is stepped  *)
(* through the real code, which must reach the same outcome.                 *)
(*                                                                          *)
(* hist is a history variable; Report writes it (with the outcome the        *)
(* specification predicts) as one JSON line per terminal state.              *)
(***************************************************************************)
EXTENDS GritsNP, CSV

VARIABLE hist

svars == <<vars, hist>>

Kinds(evs) == {evs[k].e : k \in 1..Len(evs)}

PlanOf ==
    IF err' # <<>>
    THEN [rel |-> <<err'[2]>>, done |-> <<>>, ends |-> <<>>, fail |-> TRUE]
    ELSE LET acting == DOMAIN emit'
             rel  == {p \in acting : p \in DOMAIN procs /\ procs[p].st = "run"}
             done == {p \in acting : Kinds(emit'[p]) \cap {"at", "end"} # {}}
             ends == {p \in done : "end" \in Kinds(emit'[p])}
         IN [rel |-> SetToSeq(rel), done |-> SetToSeq(done), ends |-> SetToSeq(ends), fail |-> FALSE]

SInit == Init /\ hist = <<>>
SNext == /\ IF mode = "np" THEN NPNext ELSE Next
         /\ hist' = Append(hist, PlanOf)
SSpec == SInit /\ [][SNext]_svars

Terminal == err # <<>> \/ (IF mode = "np" THEN ~ENABLED NPNext ELSE Quiescent)

\* side effect: one line per terminal state reached (simulation mode), consumed by the harness
Report ==
    Terminal => CSVWrite("%1$s", <<ToJson([pi |-> pi, mode |-> mode, plan |-> hist, out |-> out, err |-> err,
                                            left |-> SetToSeq(DOMAIN procs)])>>, IOEnv.VERIF_SCHED_OUT)

\* used as the "property" whose counterexample is the behaviour we want written out (search mode)
NoError == err = <<>>
=============================================================================
