----------------------------- MODULE ModeInfer -----------------------------
(***************************************************************************)
(* C16: how omitted modes are filled in.  A type is *written* with an        *)
(* optional head annotation (field ann, "" when absent) and a structure      *)
(* whose only modes are those of its shifts (mode |-> "" elsewhere).         *)
(*                                                                           *)
(*  - an annotation governs its whole type up to the next shift;             *)
(*  - without one, the mode is the one fixed by a component - a shift        *)
(*    (its target mode) or a named type (that definition's mode) - and       *)
(*    replicable when nothing fixes it;                                       *)
(*  - the continuation of a shift takes the shift's source mode;             *)
(*  - a reference to a named type carries that definition's mode.            *)
(* When components disagree the leftmost one is taken (as the code does);    *)
(* such a type is then ill-formed by WellFormed!ModesOK anyway, so for       *)
(* accepted programs the result is independent of that choice.               *)
(***************************************************************************)
EXTENDS WellFormed

Unset == ""

\* written definitions: [name, ann, t]
WDefOf(W, n) == W[CHOOSE i \in 1..Len(W) : W[i].name = n /\ \A j \in 1..Len(W) : W[j].name = n => j <= i]
WDefined(W, n) == \E i \in 1..Len(W) : W[i].name = n

FirstSet(s) == LET idx == {i \in 1..Len(s) : s[i] # Unset}
               IN IF idx = {} THEN Unset ELSE s[CHOOSE i \in idx : \A j \in idx : i <= j]

RECURSIVE Fix(_, _, _)
\* the mode fixed by the components of a written structure (seen: names on the current path)
Fix(W, t, seen) ==
    CASE t.k \in {"up", "down"} -> t.to
      [] t.k = "name" -> IF t.name \in seen \/ ~WDefined(W, t.name) THEN Unset
                         ELSE LET d == WDefOf(W, t.name)
                              IN IF d.ann # Unset THEN d.ann ELSE Fix(W, d.t, seen \cup {t.name})
      [] t.k = "unit" -> Unset
      [] t.k \in {"send", "recv"} -> FirstSet(<<Fix(W, t.l, seen), Fix(W, t.r, seen)>>)
      [] t.k \in {"sel", "bra"} -> FirstSet([i \in 1..Len(t.br) |-> Fix(W, t.br[i].t, seen)])
      [] OTHER -> Unset

\* the mode of a whole written type (definition body or annotation type)
HeadMode(W, ann, t) ==
    LET m == IF ann # Unset /\ t.k \notin {"up", "down"} THEN ann ELSE Fix(W, t, {})
    IN IF m = Unset THEN "rep" ELSE m
DefMode(W, n) == LET d == WDefOf(W, n) IN HeadMode(W, d.ann, d.t)

RECURSIVE Assign(_, _, _)
Assign(W, t, cur) ==
    CASE t.k = "unit" -> Unit(cur)
      [] t.k = "name" -> Name(t.name, IF WDefined(W, t.name) THEN DefMode(W, t.name) ELSE cur)
      [] t.k = "send" -> Send(Assign(W, t.l, cur), Assign(W, t.r, cur), cur)
      [] t.k = "recv" -> Recv(Assign(W, t.l, cur), Assign(W, t.r, cur), cur)
      [] t.k = "sel"  -> Sel([i \in 1..Len(t.br) |-> Opt(t.br[i].label, Assign(W, t.br[i].t, cur))], cur)
      [] t.k = "bra"  -> Bra([i \in 1..Len(t.br) |-> Opt(t.br[i].label, Assign(W, t.br[i].t, cur))], cur)
      [] t.k = "up"   -> UpT(t.from, t.to, Assign(W, t.t, t.from))
      [] t.k = "down" -> DownT(t.from, t.to, Assign(W, t.t, t.from))

InferType(W, ann, t) == Assign(W, t, HeadMode(W, ann, t))
Infer(W) == [i \in 1..Len(W) |-> [name |-> W[i].name, t |-> InferType(W, W[i].ann, W[i].t)]]

\* a head annotation must agree with the mode its type lives at (it cannot re-label a shift)
AnnOK(W, ann, t) == ann = Unset \/ (KnownMode(ann) /\ ann = ModeOf(InferType(W, ann, t)))

\* well-formedness of written definitions = well-formedness after inference + consistent annotations
WFW(W) == /\ WF(Infer(W))
          /\ \A i \in 1..Len(W) : AnnOK(W, W[i].ann, W[i].t)
WhyW(W) == IF Why(Infer(W)) # "ok" THEN Why(Infer(W))
           ELSE IF \E i \in 1..Len(W) : ~AnnOK(W, W[i].ann, W[i].t) THEN "annotation contradicts shift"
           ELSE "ok"

\* no node is left without a mode
RECURSIVE AllSet(_)
AllSet(t) == /\ (t.k \in {"up", "down"} => KnownMode(t.from) /\ KnownMode(t.to))
             /\ (t.k \notin {"up", "down"} => KnownMode(t.mode))
             /\ \A i \in 1..Len(Children(t)) : AllSet(Children(t)[i])
=============================================================================
