---------------------------- MODULE TcProtoTrace ----------------------------
(***************************************************************************)
(* Every event log the typechecker hooks (verifTc in process/typechecker.go) *)
(* produced for a program must be a complete behaviour of the INTENDED       *)
(* protocol of TcProto: phases in order, nothing after the first failing     *)
(* phase, one result, the caller's return consistent with it, the worker     *)
(* stopped.  The outcome of each phase (plan) is not logged; TLC infers it.  *)
(* The invariants of TcProto are evaluated in every state on the way.        *)
(* Many logs are validated in one run; "all accepted" is reported as the     *)
(* violation of NotAllAccepted, otherwise register 1 holds the index of the  *)
(* first rejected log.                                                       *)
(***************************************************************************)
EXTENDS TcProto, Json, IOUtils, SequencesExt

Logs == JsonDeserialize(IOEnv.VERIF_TRACES)    \* sequence of [log |-> Seq(event)]

VARIABLE ti
tvars == <<vars, ti>>

Obs == Logs[ti].log

TraceInit == Init /\ ti = 1 /\ TLCSet(1, 1)

Follow ==
    /\ ti <= Len(Logs)
    /\ Next
    /\ IsPrefix(log', Obs)
    /\ UNCHANGED ti

Accept ==
    /\ ti <= Len(Logs)
    /\ log = Obs /\ caller = "returned" /\ wk = Stopped /\ ch = <<>> /\ host = "alive"
    /\ ti' = ti + 1
    /\ TLCSet(1, IF TLCGet(1) > ti + 1 THEN TLCGet(1) ELSE ti + 1)
    /\ plan' \in [Phases -> {"ok", "err", "panic"}]
    /\ wk' = At(1) /\ ch' = <<>> /\ caller' = "waiting" /\ result' = "none" /\ host' = "alive" /\ sent' = 0 /\ log' = <<>>

TraceNext == Follow \/ Accept
TraceSpec == TraceInit /\ [][TraceNext]_tvars

NotAllAccepted == ti <= Len(Logs)
HighWater == PrintT(<<"TCHW", TLCGet(1)>>)
=============================================================================
