------------------------------ MODULE TcProto ------------------------------
(***************************************************************************)
(* The protocol between process.Typecheck (the caller) and the goroutine    *)
(* that does the checking (process/typechecker.go).                         *)
(*                                                                         *)
(* The checker runs five phases in order (type definitions, function        *)
(* headers, process headers, function bodies, process bodies).  What a      *)
(* phase does with a given program is abstracted to its outcome:            *)
(* "ok", "err" (it found a type error) or "panic" (an internal failure).     *)
(* The program fixes the outcome of every phase (variable plan), the         *)
(* scheduler fixes the interleaving of caller and worker.                    *)
(*                                                                         *)
(* Variant = "intended"  : the protocol C09 demands (and the code after the  *)
(*   repair b126ced): the worker stops at the first error, a panic is        *)
(*   recovered into an error, exactly one result is delivered through a      *)
(*   one-slot channel, the worker never blocks and never outlives its        *)
(*   result.                                                                 *)
(* Variant = "aswritten" : the protocol of the pinned commit, kept as named  *)
(*   deviation actions named Dev_...: two unbuffered channels, the worker carries  *)
(*   on after sending an error (F14), its deferred "done" also fires while   *)
(*   a panic unwinds (F6), and the panic then kills the host.  TLC finds     *)
(*   the violations of NilOnlyIfAllOk, HostAlive and NoWorkAfterReturn on    *)
(*   it; they were reproduced on the real code before the repair.            *)
(***************************************************************************)
EXTENDS Integers, Sequences, FiniteSets, TLC

CONSTANTS Variant

NPhases == 5
Phases == 1..NPhases

VARIABLES plan,    \* phase -> "ok" | "err" | "panic"   (a function of the program)
          wk,      \* worker: [at |-> k, in |-> BOOLEAN] | "sending" states | "stopped"
          ch,      \* messages offered / buffered for the caller: sequence of "err" | "nil"
          caller,  \* "waiting" | "returned"
          result,  \* "none" | "nil" | "err"
          host,    \* "alive" | "dead"
          sent,    \* number of results the worker produced
          log      \* hook events in order (verifTc)

vars == <<plan, wk, ch, caller, result, host, sent, log>>

At(k)      == [s |-> "at", k |-> k]          \* about to start phase k
In(k)      == [s |-> "in", k |-> k]          \* inside phase k
Offer(k,m) == [s |-> "offer", k |-> k, m |-> m]   \* as written: blocked in an unbuffered send after phase k
Unwind(k)  == [s |-> "unwind", k |-> k]      \* as written: panic unwinding, deferred send pending
Stopped    == [s |-> "stopped", k |-> 0]

Init ==
    /\ plan \in [Phases -> {"ok", "err", "panic"}]
    /\ wk = At(1)
    /\ ch = <<>>
    /\ caller = "waiting"
    /\ result = "none"
    /\ host = "alive"
    /\ sent = 0
    /\ log = <<>>

Ev(e) == log' = Append(log, e)
PhaseName(k) == CASE k = 1 -> "p1" [] k = 2 -> "p2" [] k = 3 -> "p3" [] k = 4 -> "p4" [] k = 5 -> "p5"

(***************************************************************************)
(* Intended protocol                                                        *)
(***************************************************************************)
Start(k) ==
    /\ wk = At(k) /\ host = "alive"
    /\ wk' = In(k)
    /\ Ev(PhaseName(k))
    /\ UNCHANGED <<plan, ch, caller, result, host, sent>>

EndOk(k) ==
    /\ wk = In(k) /\ plan[k] = "ok" /\ host = "alive"
    /\ IF k < NPhases THEN wk' = At(k + 1) /\ UNCHANGED <<ch, sent, log>>
       ELSE IF Variant = "intended"
       THEN /\ wk' = Stopped                         \* all phases passed: deliver nil
            /\ ch' = Append(ch, "nil") /\ sent' = sent + 1
            /\ Ev("ok")
       ELSE /\ wk' = Offer(0, "nil")                 \* as written: the deferred send at the end of the function
            /\ sent' = sent + 1
            /\ Ev("ok")
            /\ UNCHANGED ch
    /\ UNCHANGED <<plan, caller, result, host>>

EndErr(k) ==
    /\ Variant = "intended"
    /\ wk = In(k) /\ plan[k] = "err" /\ host = "alive"
    /\ wk' = Stopped                                  \* stop at the first error
    /\ ch' = Append(ch, "err") /\ sent' = sent + 1
    /\ Ev("err")
    /\ UNCHANGED <<plan, caller, result, host>>

EndPanic(k) ==
    /\ Variant = "intended"
    /\ wk = In(k) /\ plan[k] = "panic" /\ host = "alive"
    /\ wk' = Stopped                                  \* recovered: reported as an error
    /\ ch' = Append(ch, "err") /\ sent' = sent + 1
    /\ Ev("panic")
    /\ UNCHANGED <<plan, caller, result, host>>

\* the caller takes the (single, buffered) result
Return ==
    /\ Variant = "intended"
    /\ caller = "waiting" /\ host = "alive"
    /\ Len(ch) > 0
    /\ result' = Head(ch)
    /\ ch' = Tail(ch)
    /\ caller' = "returned"
    /\ Ev(IF Head(ch) = "nil" THEN "ret-nil" ELSE "ret-err")
    /\ UNCHANGED <<plan, wk, host, sent>>

(***************************************************************************)
(* Deviations of the pinned commit (two unbuffered channels, a deferred     *)
(* "done" send, no return after an error, no recover)                        *)
(***************************************************************************)
\* F14: the error is offered on an unbuffered channel ...
Dev_F14_OfferError(k) ==
    /\ Variant = "aswritten"
    /\ wk = In(k) /\ plan[k] = "err" /\ host = "alive"
    /\ wk' = Offer(k, "err")
    /\ sent' = sent + 1
    /\ Ev("err")
    /\ UNCHANGED <<plan, ch, caller, result, host>>

\* F6: a panic in phase k runs the deferred send first: "done" is offered although checking failed
Dev_F6_PanicOffersDone(k) ==
    /\ Variant = "aswritten"
    /\ wk = In(k) /\ plan[k] = "panic" /\ host = "alive"
    /\ wk' = Unwind(k)
    /\ sent' = sent + 1
    /\ Ev("panic")
    /\ UNCHANGED <<plan, ch, caller, result, host>>

\* the caller's select takes whatever a blocked sender offers
Dev_ReturnRendezvous ==
    /\ Variant = "aswritten"
    /\ caller = "waiting" /\ host = "alive"
    /\ wk.s \in {"offer", "unwind"}
    /\ LET m == IF wk.s = "offer" THEN wk.m ELSE "nil" IN
       /\ result' = m
       /\ Ev(IF m = "nil" THEN "ret-nil" ELSE "ret-err")
    /\ caller' = "returned"
       \* F14: once the error was taken the worker carries on with the next phase (or its deferred send);
       \* F6: once the deferred send of a panicking worker was taken, the panic goes on unwinding
    /\ wk' = IF wk.s = "unwind" THEN [s |-> "dying", k |-> wk.k]
             ELSE IF wk.m = "nil" THEN Stopped
             ELSE IF wk.k < NPhases THEN At(wk.k + 1) ELSE Offer(0, "nil")
    /\ UNCHANGED <<plan, ch, host, sent>>

\* an unrecovered panic reaches the top of its goroutine: the host process dies
Dev_F6_PanicKillsHost ==
    /\ Variant = "aswritten"
    /\ wk.s = "dying" /\ host = "alive"
    /\ host' = "dead"
    /\ UNCHANGED <<plan, wk, ch, caller, result, sent, log>>

Next ==
    \/ \E k \in Phases : Start(k) \/ EndOk(k) \/ EndErr(k) \/ EndPanic(k)
                         \/ Dev_F14_OfferError(k) \/ Dev_F6_PanicOffersDone(k)
    \/ Return \/ Dev_ReturnRendezvous \/ Dev_F6_PanicKillsHost

Spec == Init /\ [][Next]_vars /\ WF_vars(Next)

(***************************************************************************)
(* Properties (C09)                                                          *)
(***************************************************************************)
AllOk == \A k \in Phases : plan[k] = "ok"
FirstBad == IF AllOk THEN 0 ELSE CHOOSE k \in Phases : plan[k] # "ok" /\ \A j \in 1..(k - 1) : plan[j] = "ok"

\* success is reported only if every phase succeeded; an error only if some phase did not
NilOnlyIfAllOk == result = "nil" => AllOk
ErrOnlyIfBad   == result = "err" => ~AllOk
\* a panic never escapes
HostAlive == host = "alive"
\* exactly one result is ever produced, and no phase after the first failing one is run
OneResult == sent <= 1
NoPhaseAfterFailure == \A i \in 1..Len(log) : \A k \in Phases : (log[i] = PhaseName(k) /\ ~AllOk) => k <= FirstBad
\* after the caller has returned the worker performs no further step
NoWorkAfterReturn == [][caller = "returned" => wk' = wk]_vars
\* the caller always gets its verdict, and the worker never stays blocked
Returns == <>(caller = "returned")
WorkerFinishes == <>(wk = Stopped)
=============================================================================
