------------------------------ MODULE TypeLib ------------------------------
(***************************************************************************)
(* Session types as data (same shape as the harness' JSON rendering):       *)
(*   [k |-> "unit", mode]            [k |-> "name", name, mode]             *)
(*   [k |-> "send"|"recv", l, r, mode]                                       *)
(*   [k |-> "sel"|"bra", br |-> Seq([label, t]), mode]                       *)
(*   [k |-> "up"|"down", from, to, t]                                        *)
(* An environment is a sequence of definitions [name, t].                    *)
(***************************************************************************)
EXTENDS Integers, Sequences, FiniteSets, TLC

ModeSet == {"rep", "mul", "aff", "lin"}
Down(a, b) == a = "rep" \/ a = b \/ b = "lin"     \* a can be down-shifted to b (a >= b), see Modes.tla
Up(a, b)   == Down(b, a)

Unit(m)        == [k |-> "unit", mode |-> m]
Name(n, m)     == [k |-> "name", name |-> n, mode |-> m]
Send(a, b, m)  == [k |-> "send", l |-> a, r |-> b, mode |-> m]
Recv(a, b, m)  == [k |-> "recv", l |-> a, r |-> b, mode |-> m]
Sel(br, m)     == [k |-> "sel", br |-> br, mode |-> m]
Bra(br, m)     == [k |-> "bra", br |-> br, mode |-> m]
UpT(f, t, c)   == [k |-> "up", from |-> f, to |-> t, t |-> c]
DownT(f, t, c) == [k |-> "down", from |-> f, to |-> t, t |-> c]
Opt(l, t)      == [label |-> l, t |-> t]

\* the mode a type lives at (SessionType.Modality)
ModeOf(t) == IF t.k \in {"up", "down"} THEN t.to ELSE t.mode

RECURSIVE Sub(_)
Sub(t) == {t} \cup
    (CASE t.k \in {"send", "recv"} -> Sub(t.l) \cup Sub(t.r)
       [] t.k \in {"sel", "bra"}   -> UNION {Sub(t.br[i].t) : i \in 1..Len(t.br)}
       [] t.k \in {"up", "down"}   -> Sub(t.t)
       [] OTHER -> {})

Children(t) ==
    CASE t.k \in {"send", "recv"} -> <<t.l, t.r>>
      [] t.k \in {"sel", "bra"}   -> [i \in 1..Len(t.br) |-> t.br[i].t]
      [] t.k \in {"up", "down"}   -> <<t.t>>
      [] OTHER -> <<>>

DefNames(E) == {E[i].name : i \in 1..Len(E)}
Defined(E, n) == n \in DefNames(E)
\* the first definition of n (the code builds a map, so the LAST one wins there; duplicates are ill-formed anyway)
DefOf(E, n) == E[CHOOSE i \in 1..Len(E) : E[i].name = n /\ \A j \in 1..Len(E) : E[j].name = n => j <= i].t

NoType == [k |-> "none"]

\* unfold names at the head; fuel bounds alias chains (a cycle of aliases is non-contractive)
RECURSIVE UnfF(_, _, _)
UnfF(E, t, fuel) ==
    IF t.k # "name" THEN t
    ELSE IF fuel = 0 \/ ~Defined(E, t.name) THEN NoType
    ELSE UnfF(E, DefOf(E, t.name), fuel - 1)
Unf(E, t) == UnfF(E, t, Len(E) + 1)

Labels(t) == {t.br[i].label : i \in 1..Len(t.br)}
BranchOf(t, l) == t.br[CHOOSE i \in 1..Len(t.br) : t.br[i].label = l].t
=============================================================================
