----------------------------- MODULE TypingConf -----------------------------
(***************************************************************************)
(* C05 / C06 / C07: validation of a verdict log of the real front end        *)
(* (parser + process.Typecheck) against the type system of Typing.tla.       *)
(* Cases[i] = [prog |-> dump of the PARSED program, verdict |-> "accept" |   *)
(* "reject"].  VerdictOK must hold for every case of the fragment.           *)
(***************************************************************************)
EXTENDS Typing, Json, IOUtils

Cases == JsonDeserialize(IOEnv.VERIF_CASES)

VARIABLE i
Init == i = 1
Next == i < Len(Cases) /\ i' = i + 1
Spec == Init /\ [][Next]_i

Case == Cases[i]
Expected == IF Check(Case.prog) THEN "accept" ELSE "reject"
\* with Relax = "none": the verdict of the real front end is the type system's.  With a relaxed system the same invariant is used
\* to classify a wrongly accepted program (it holds iff the program is derivable once that discipline is dropped).
VerdictOK == (Len(Cases) > 0 /\ InFragment(Case.prog)) => Case.verdict = Expected
=============================================================================
