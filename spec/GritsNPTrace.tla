---------------------------- MODULE GritsNPTrace ----------------------------
(***************************************************************************)
(* Trace validation for the non-polarized execution version: every recorded *)
(* run of the real interpreter in mode "np" must be a behaviour of GritsNP.  *)
(* Same scheme as GritsRTTrace.tla; the difference is that an action may    *)
(* have two participants (a data or control rendezvous), either of which    *)
(* may be the first to log: the first event of a new action is matched       *)
(* against every enabled action the logging process takes part in.           *)
(***************************************************************************)
EXTENDS GritsNP

Traces == JsonDeserialize(IOEnv.VERIF_TRACES)
   \* sequence of [pi |-> corpus index, mode |-> "async"|"sync", events |-> Seq(event)]

VARIABLES ti,      \* index of the trace being validated
          l,       \* next event
          expect,  \* pid -> events still expected from that process
          addr,    \* ownership layer: identity of a real Form node -> the tree node <<inst, n>> the specification says it is
          shared   \* real Form nodes seen as two different tree nodes (a body shared between copies / processes)

tvars == <<vars, ti, l, expect, addr, shared>>

Events == Traces[ti].events

\* every field the spec predicts must equal the logged one (inst and n are the specification's names of the tree nodes)
Match(ev, x) == \A f \in DOMAIN x \ {"inst", "n"} : f \in DOMAIN ev /\ ev[f] = x[f]

\* Ownership layer.  An "at" / "spawn" event lists the identities of the Form nodes reachable from the body of the
\* process, in the preorder the dump numbers them in; the specification says which tree nodes these are:
\* <<inst, n>>, <<inst, n + 1>>, ...  (a single node <<inst, 0>> for a synthetic form).  A real node that is seen
\* as two different tree nodes is shared between two copies that the specification keeps apart (CALL and DUP copy,
\* CUT moves): in-place substitution by its two owners would be an unsynchronised concurrent access.
TreeKeys(ev, x) == [i \in 1..Len(ev.tree) |-> <<x.inst, IF x.n = 0 THEN 0 ELSE x.n + i - 1>>]
HasTree(ev, x) == ev.e \in {"at", "spawn"} /\ "tree" \in DOMAIN ev /\ "inst" \in DOMAIN x
Observe(ev, x) ==
    IF HasTree(ev, x)
    THEN LET ks == TreeKeys(ev, x)
             bad == {ev.tree[i] : i \in {j \in 1..Len(ev.tree) : ev.tree[j] \in DOMAIN addr /\ addr[ev.tree[j]] # ks[j]}}
             new == {i \in 1..Len(ev.tree) : ev.tree[i] \notin DOMAIN addr}
         IN /\ shared' = shared \cup bad
            /\ addr' = [a \in {ev.tree[i] : i \in new} |-> ks[CHOOSE i \in new : ev.tree[i] = a]] @@ addr
    ELSE UNCHANGED <<addr, shared>>

StartExpect(i, m) ==
    LET n == Len(Corpus[i].prog.procs) IN
    (ROOT :> [k \in 1..n |-> EvSpawn(ROOT, <<k>>, InitProcs[<<k>>])])
    @@ [q \in {<<k>> : k \in 1..n} |-> <<EvAt(q, InitProcs[q])>>]

\* (re)initialise the run of the program pi (two steps, so that nothing has to be primed: l = 0 marks "fresh")
TraceStart ==
    /\ ti <= Len(Traces) /\ l = 0
    /\ l' = 1
    /\ procs' = InitProcs
    /\ chans' = InitChans
    /\ out' = <<>>
    /\ err' = <<>>
    /\ emit' = <<>>
    /\ expect' = StartExpect(pi, mode)
    /\ addr' = <<>> /\ shared' = {}
    /\ UNCHANGED <<ti, mode, pi>>

TraceInit ==
    /\ ti = 1
    /\ l = 1
    /\ mode = Traces[1].mode
    /\ pi = Traces[1].pi
    /\ procs = InitProcs
    /\ chans = InitChans
    /\ out = <<>>
    /\ err = <<>>
    /\ emit = <<>>
    /\ expect = StartExpect(Traces[1].pi, Traces[1].mode)
    /\ addr = <<>> /\ shared = {}

Pending(p) == p \in DOMAIN expect /\ expect[p] # <<>>

Merge(p) ==
    [q \in DOMAIN expect \cup DOMAIN emit' |->
        (IF q \in DOMAIN expect THEN expect[q] ELSE <<>>)
        \o (IF q \in DOMAIN emit' THEN (IF q = p THEN Tail(emit'[q]) ELSE emit'[q]) ELSE <<>>)]

\* an event the spec was already expecting
TraceExpected ==
    /\ ti <= Len(Traces) /\ l >= 1 /\ l <= Len(Events)
    /\ LET ev == Events[l] IN
       /\ ev.e # "quiesce"
       /\ Pending(ev.p)
       /\ Match(ev, Head(expect[ev.p]))
       /\ Observe(ev, Head(expect[ev.p]))
       /\ expect' = [expect EXCEPT ![ev.p] = Tail(@)]
       /\ l' = l + 1
       /\ UNCHANGED <<vars, ti>>

\* the first event of a new action in which the logging process takes part
Took(ev) ==
    /\ ev.p \in DOMAIN emit'
    /\ Match(ev, Head(emit'[ev.p]))
    /\ Observe(ev, Head(emit'[ev.p]))
    /\ expect' = Merge(ev.p)

TraceFire ==
    /\ ti <= Len(Traces) /\ l >= 1 /\ l <= Len(Events)
    /\ LET ev == Events[l] IN
       /\ ev.e # "quiesce"
       /\ ~Pending(ev.p)
       /\ \/ \E x \in DOMAIN procs \ {ev.p} : (Comm(ev.p, x) \/ Comm(x, ev.p) \/ Ctl(ev.p, x) \/ Ctl(x, ev.p)) /\ Took(ev)
          \/ (Internal(ev.p) \/ Dup(ev.p) \/ Alone(ev.p)) /\ Took(ev)
       /\ l' = l + 1
       /\ UNCHANGED ti

\* the heartbeat timed out: the spec must agree that nothing can move and nothing is owed
TraceQuiesce ==
    /\ ti <= Len(Traces) /\ l >= 1 /\ l <= Len(Events)
    /\ Events[l].e = "quiesce"
    /\ \A p \in DOMAIN expect : expect[p] = <<>>
    /\ NPQuiescent
    /\ l' = l + 1
    /\ UNCHANGED <<vars, ti, expect, addr, shared>>

TraceReset ==
    /\ ti <= Len(Traces) /\ l > Len(Events)
    /\ ti' = ti + 1
    /\ IF ti < Len(Traces)
       THEN /\ l' = 0 /\ mode' = Traces[ti + 1].mode /\ pi' = Traces[ti + 1].pi
            /\ procs' = <<>> /\ chans' = <<>>    \* (the state invariants must not see the old run under the new program index)
            /\ UNCHANGED <<out, err, emit, expect, addr, shared>>
       ELSE UNCHANGED <<vars, l, expect, addr, shared>>

TraceDone == ti > Len(Traces) /\ UNCHANGED tvars

TraceNext == TraceStart \/ TraceExpected \/ TraceFire \/ TraceQuiesce \/ TraceReset \/ TraceDone

TraceSpec == TraceInit /\ [][TraceNext]_tvars

\* C13: no real Form node is owned under two names
NoSharedNode == shared = {}

\* the invariants of GritsRT are evaluated in every state of every observed run
TraceView == <<ti, l>>
=============================================================================
