------------------------------ MODULE SaxTrace ------------------------------
(***************************************************************************)
(* Validation of OBSERVED PRINT SEQUENCES of the real interpreter against   *)
(* the reference semantics Sax: a run of program pi that printed            *)
(* l_1 ... l_n and then reached quiescence is accepted iff Sax has a         *)
(* behaviour that prints exactly l_1 ... l_n in this order and then can      *)
(* print nothing more.  Only prints are logged; every other step of the      *)
(* reference is silent and inferred (normalised scheduling: silent steps     *)
(* first - they commute with everything - so the search branches only when   *)
(* several threads offer the label that comes next).                         *)
(*                                                                         *)
(* Many observations are validated in one TLC run.  "All accepted" is        *)
(* reported as a violation of the invariant NotAllAccepted; if TLC finishes  *)
(* without it, register 1 holds the index of the first rejected trace.       *)
(***************************************************************************)
EXTENDS Sax

Traces == JsonDeserialize(IOEnv.VERIF_TRACES)
   \* sequence of [pi |-> corpus index, prints |-> Seq(label)]

VARIABLES ti,   \* index of the observation being validated
          l     \* number of its labels matched so far

tvars == <<svars, ti, l>>

Obs == Traces[ti].prints

TraceInit ==
    /\ ti = 1
    /\ l = 0
    /\ pi = Traces[1].pi
    /\ thr = InitThr(Traces[1].pi)
    /\ cells = InitCells(Traces[1].pi)
    /\ out = <<>>
    /\ err = <<>>
    /\ spawned = 0
    /\ TLCSet(1, 1)

Silent ==
    /\ ti <= Len(Traces)
    /\ SilentEn # {}
    /\ Step(CHOOSE t \in SilentEn : TRUE)
    /\ UNCHANGED <<ti, l>>

PrintObs ==
    /\ ti <= Len(Traces)
    /\ SilentEn = {}
    /\ l < Len(Obs)
    /\ \E t \in PrintEn :
         /\ Nodes[thr[t].n].label = Obs[l + 1]
         /\ Step(t)
    /\ l' = l + 1
    /\ UNCHANGED ti

\* the observation is exhausted and the reference can print nothing more: accepted, go to the next one
Accept ==
    /\ ti <= Len(Traces)
    /\ err = <<>>
    /\ SilentEn = {} /\ PrintEn = {}
    /\ l = Len(Obs)
    /\ ti' = ti + 1
    /\ TLCSet(1, IF TLCGet(1) > ti + 1 THEN TLCGet(1) ELSE ti + 1)
    /\ l' = 0
    /\ out' = <<>>
    /\ err' = <<>>
    /\ spawned' = 0
    /\ IF ti < Len(Traces)
       THEN /\ pi' = Traces[ti + 1].pi
            /\ thr' = InitThr(Traces[ti + 1].pi)
            /\ cells' = InitCells(Traces[ti + 1].pi)
       ELSE /\ thr' = <<>> /\ cells' = <<>> /\ UNCHANGED pi

TraceNext == Silent \/ PrintObs \/ Accept

TraceSpec == TraceInit /\ [][TraceNext]_tvars

NotAllAccepted == ti <= Len(Traces)

HighWater == PrintT(<<"SAXHW", TLCGet(1)>>)
=============================================================================
