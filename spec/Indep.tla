------------------------------- MODULE Indep -------------------------------
(***************************************************************************)
(* Mode independence (C06): in every typing judgement  Gamma |- P :: (c:A_m) *)
(* each x : B_k in Gamma satisfies k >= m.  This module enumerates the       *)
(* judgement sites of a declaration together with every assignment of modes  *)
(* (4 provider modes x up to 3 antecedents = all 4, 16, 64, 256 tuples) and   *)
(* states the expected verdict of the typechecker on the canonical program    *)
(* of that judgement (the harness renders it; all channels have type 1, are   *)
(* consumed by wait, the provider closes):                                   *)
(*   fun     let f(p1 : k1 1, ..) : m 1 = wait p1; ..; close self            *)
(*   funx    let f[w : m 1, p1 : k1 1, ..] = wait p1; ..; close w            *)
(*   cutcont let g(p1 : k1 1, ..) : m 1 = x : kx 1 <- new close self;        *)
(*                                        wait x; wait p1; ..; close self     *)
(*           (the cut variable is the LAST antecedent of the continuation)    *)
(*   prc     prc[a] : m 1 = wait b1; ..; close self   prc[bi] : ki 1 = close *)
(* Mode = "model": the enumeration itself (TLC checks the order laws the      *)
(* expectation relies on).  Mode = "conform": the recorded verdicts of the    *)
(* real Typecheck must equal Expected (invariant VerdictOK).                  *)
(***************************************************************************)
EXTENDS Integers, Sequences, FiniteSets, TLC, Json, IOUtils

CONSTANT Mode
M == {"rep", "mul", "aff", "lin"}
Sites == {"fun", "funx", "cutcont", "prc"}

Geq(a, b) == a = "rep" \/ a = b \/ b = "lin"

Obs == IF Mode = "conform" THEN JsonDeserialize(IOEnv.VERIF_TRACES) ELSE <<>>
   \* sequence of [site, m, ks |-> Seq(mode), verdict |-> "accept" | "reject"]

VARIABLES site, m, ks, oi
vars == <<site, m, ks, oi>>

Tuples == UNION {[1..n -> M] : n \in 1..3}

Init == IF Mode = "model"
        THEN site \in Sites /\ m \in M /\ ks \in Tuples /\ oi = 0
        ELSE oi \in 1..Len(Obs) /\ site = Obs[oi].site /\ m = Obs[oi].m /\ ks = Obs[oi].ks
Next == UNCHANGED vars
Spec == Init /\ [][Next]_vars

Independent == \A i \in 1..Len(ks) : Geq(ks[i], m)
Expected == IF Independent THEN "accept" ELSE "reject"

\* what the expectation relies on: the order is a preorder with rep on top and lin at the bottom,
\* so a context is independent of m iff its weakest members are, and adding a stronger antecedent never hurts
Monotone == \A k2 \in M : (Independent /\ Geq(k2, m)) => \A i \in 1..Len(ks) : Geq(ks[i], m)
LinAlwaysIndependent == m = "lin" => Independent
RepOnlyOnRep == m = "rep" => (Independent <=> \A i \in 1..Len(ks) : ks[i] = "rep")
PositionIrrelevant == \A i, j \in 1..Len(ks) :
                         LET sw == [x \in 1..Len(ks) |-> IF x = i THEN ks[j] ELSE IF x = j THEN ks[i] ELSE ks[x]]
                         IN (\A x \in 1..Len(sw) : Geq(sw[x], m)) = Independent

VerdictOK == Mode = "conform" => Obs[oi].verdict = Expected
=============================================================================
