------------------------------ MODULE GritsNP ------------------------------
(***************************************************************************)
(* The non-polarized execution version of the Grits interpreter as written  *)
(* (process/transition_np.go): unbuffered data channels, and per name a      *)
(* second, unbuffered CONTROL channel on which a forward tells the provider  *)
(* of the forwarded channel to adopt the forward's providers.  Every          *)
(* transition of a process is a Go select over (its own control channel,     *)
(* the data operation of its head form), so                                  *)
(*                                                                          *)
(*   Comm(s, r)  a data rendezvous: s sits at a sending form whose target is *)
(*               the channel r listens on; both move in one step;            *)
(*   Ctl(f, q)   a control rendezvous: forward f hands its providers to the  *)
(*               process q that provides the forwarded channel; q may be at   *)
(*               ANY select point (that is what makes the moment of adoption  *)
(*               schedule dependent); q closes the channels it provided;     *)
(*   Internal(p) CUT / SPLIT / CALL / PRINT / DROP (drop is a no-op here);    *)
(*               the non-blocking poll of the control channel that precedes   *)
(*               them is covered by Ctl being enabled at the same time;      *)
(*   Dup(p)      a process with several providers duplicates itself before   *)
(*               any select (not at a forward; at a call the code falls into  *)
(*               the POLARIZED duplication - modelled as the error it is);    *)
(*   Closed(p)   an operation on a channel that was closed by an adoption:    *)
(*               a send panics, a receive yields the zero message.            *)
(*                                                                          *)
(* Processes, environments, ids, events and the ownership layer are those of *)
(* GritsRT.tla (which this module extends; the variable mode is "np").        *)
(***************************************************************************)
EXTENDS GritsRT

NPMode == "np"

Self1(P) == IF Len(P.provs) > 0 THEN P.provs[1] ELSE NIL

\* what a process at a sending form wants to do: [ok, why, c, m, how]
Intent(P, nd) ==
    LET E(w) == [ok |-> FALSE, why |-> w, c |-> NIL, m |-> ZeroMsg, how |-> ""]
        G(c, m, how) == [ok |-> TRUE, why |-> "", c |-> c, m |-> m, how |-> how] IN
    CASE nd.k = "send" ->
           IF Res(P, nd.to) = SELF THEN G(Self1(P), Msg("SND", "", Res(P, nd.pay), PolOf(nd.pay), Res(P, nd.cont), PolOf(nd.cont), <<>>), "terminate")
           ELSE IF Res(P, nd.cont) # SELF THEN E("send: continuation should be self")
           ELSE G(Res(P, nd.to), Msg("RCV", "", Res(P, nd.pay), PolOf(nd.pay), Self1(P), "", <<>>), "renamed")
      [] nd.k = "sel" ->
           IF Res(P, nd.to) = SELF THEN G(Self1(P), Msg("SEL", nd.label, Res(P, nd.cont), PolOf(nd.cont), NIL, "nil", <<>>), "terminate")
           ELSE IF Res(P, nd.cont) # SELF THEN E("select: neither side is self")
           ELSE G(Res(P, nd.to), Msg("BRA", nd.label, Self1(P), "", NIL, "nil", <<>>), "renamed")
      [] nd.k = "cast" ->
           IF Res(P, nd.to) = SELF THEN G(Self1(P), Msg("CST", "", Res(P, nd.cont), PolOf(nd.cont), NIL, "nil", <<>>), "terminate")
           ELSE IF Res(P, nd.cont) # SELF THEN E("cast: continuation should be self")
           ELSE G(Res(P, nd.to), Msg("SHF", "", Self1(P), "", NIL, "nil", <<>>), "renamed")
      [] nd.k = "close" ->
           IF Res(P, nd.from) # SELF THEN E("close on a client")
           ELSE G(Self1(P), Msg("CLS", "", NIL, "nil", NIL, "nil", <<>>), "terminate")
      [] OTHER -> E("not a sending form")

IsSending(nd) == nd.k \in {"send", "sel", "cast", "close"}
IsReceiving(nd) == nd.k \in {"recv", "case", "wait", "shift"}

\* the process a receiving form turns into when it is handed message m: [ok, why, P2]
Receive(P, nd, m) ==
    LET E(w) == [ok |-> FALSE, why |-> w, P2 |-> P]
        G(Q) == [ok |-> TRUE, why |-> "", P2 |-> Q] IN
    CASE nd.k = "recv" ->
           IF Res(P, nd.from) = SELF
           THEN IF m.rule # "RCV" THEN E("expected RCV")
                ELSE G(Next1(P, nd.next, (nd.pay.id :> m.ch1) @@ (nd.cont.id :> SELF) @@ P.env, <<m.ch2>>))
           ELSE IF m.rule # "SND" THEN E("expected SND")
                ELSE G(Next1(P, nd.next, (nd.pay.id :> m.ch1) @@ (nd.cont.id :> m.ch2) @@ P.env, P.provs))
      [] nd.k = "case" ->
           LET b == Branch(nd, m.label) IN
           IF Res(P, nd.from) = SELF
           THEN IF m.rule # "BRA" THEN E("expected BRA")
                ELSE IF b.next = 0 THEN E("no matching label")
                ELSE G(Next1(P, b.next, (b.pay.id :> SELF) @@ P.env, <<m.ch1>>))
           ELSE IF m.rule # "SEL" THEN E("expected SEL")
                ELSE IF b.next = 0 THEN E("no matching label")
                ELSE G(Next1(P, b.next, (b.pay.id :> m.ch1) @@ P.env, P.provs))
      [] nd.k = "wait" ->
           IF m.rule # "CLS" THEN E("expected CLS") ELSE G(Next1(P, nd.next, P.env, P.provs))
      [] nd.k = "shift" ->
           IF Res(P, nd.from) = SELF
           THEN IF m.rule # "SHF" THEN E("expected SHF")
                ELSE G(Next1(P, nd.next, (nd.cont.id :> SELF) @@ P.env, <<m.ch1>>))
           ELSE IF m.rule # "CST" THEN E("expected CST")
                ELSE G(Next1(P, nd.next, (nd.cont.id :> m.ch1) @@ P.env, P.provs))
      [] OTHER -> E("not a receiving form")

\* the channel a receiving form listens on (NIL = uninitialised; SELF never: resolved to the provider channel)
Hears(P, nd) ==
    CASE nd.k \in {"recv", "case", "shift"} -> IF Res(P, nd.from) = SELF THEN Self1(P) ELSE Res(P, nd.from)
      [] nd.k = "wait" -> Res(P, nd.to)
      [] OTHER -> NIL

Live(c) == c \in DOMAIN chans /\ ~chans[c].closed
Running(p) == p \in DOMAIN procs /\ procs[p].st = "run"

(***************************************************************************)
(* Data rendezvous                                                          *)
(***************************************************************************)
Comm(s, r) ==
    /\ err = <<>> /\ s # r /\ Running(s) /\ Running(r)
    /\ LET S == procs[s]
           R == procs[r]
           sn == Node(S)
           rn == Node(R) IN
       /\ IsSending(sn) /\ IsReceiving(rn)
       /\ ~NeedsDup(S) /\ ~NeedsDup(R)
       /\ LET I == Intent(S, sn) IN
          /\ I.ok
          /\ Live(I.c)
          /\ ~(rn.k = "wait" /\ Res(R, rn.to) = SELF)
          /\ Hears(R, rn) = I.c
          /\ LET X == Receive(R, rn, I.m) IN
             IF X.ok
             THEN Set([x \in DOMAIN procs \ {s} |-> IF x = r THEN X.P2 ELSE procs[x]], chans, out,
                      (s :> <<EvMsg("send", s, I.c, I.m), EvEnd(s, I.how)>>)
                      @@ (r :> <<EvMsg("recv", r, I.c, I.m), EvAt(r, X.P2)>>))
             ELSE Fail(r, X.why)

(***************************************************************************)
(* Control rendezvous (forwarding)                                          *)
(***************************************************************************)
IsFwd(P) == Node(P).k = "fwd"
\* q is at a select that includes its own control channel
Selecting(Q) == LET nd == Node(Q) IN
    \/ nd.k = "fwd"
    \/ (nd.k # "call" /\ ~NeedsDup(Q))

CtlMsg(p, c, provs) == [e |-> "send", p |-> p, c |-> c, ctl |-> TRUE, rule |-> "FWD", provs |-> provs]

Ctl(f, q) ==
    /\ err = <<>> /\ f # q /\ Running(f) /\ Running(q)
    /\ LET F == procs[f]
           Q == procs[q]
           fn == Node(F) IN
       /\ fn.k = "fwd" /\ Res(F, fn.to) = SELF
       /\ LET c == Res(F, fn.from) IN
          /\ Live(c)
          /\ Len(Q.provs) > 0 /\ Q.provs[1] = c
          /\ Selecting(Q)
          /\ LET Q2 == [Q EXCEPT !.provs = F.provs]
                 chans2 == [x \in DOMAIN chans |-> IF \E k \in 1..Len(Q.provs) : Q.provs[k] = x
                                                   THEN [chans[x] EXCEPT !.closed = TRUE] ELSE chans[x]]
             IN Set([x \in DOMAIN procs \ {f} |-> IF x = q THEN Q2 ELSE procs[x]], chans2, out,
                    (f :> <<CtlMsg(f, c, F.provs), EvEnd(f, "forward")>>)
                    @@ (q :> <<[CtlMsg(q, c, F.provs) EXCEPT !.e = "recv"], EvAt(q, Q2)>>))

(***************************************************************************)
(* Steps of one process                                                     *)
(***************************************************************************)
StepDropNP(p, P, nd) ==
    IF Res(P, nd.c) = SELF THEN Fail(p, "drop on self")
    ELSE IF NeedsDup(P) THEN DupDo(p, P, P.nc)
    ELSE LET P2 == Next1(P, nd.next, P.env, P.provs)
         IN Set([procs EXCEPT ![p] = P2], chans, out, Continue(p, P2, <<>>))

Internal(p) ==
    /\ err = <<>> /\ Running(p)
    /\ LET P == procs[p]
           nd == Node(P) IN
       CASE nd.k = "new"   -> StepNewForm(p, P, nd)
         [] nd.k = "split" -> StepSplitForm(p, P, nd)
         [] nd.k = "print" -> StepPrintForm(p, P, nd)
         [] nd.k = "drop"  -> StepDropNP(p, P, nd)
         [] nd.k = "call"  -> IF NeedsDup(P) THEN Fail(p, "np: a call with a pending duplication runs the polarized DUP")
                              ELSE StepCallForm(p, P, nd)
         [] OTHER -> FALSE

\* duplication precedes the select of a sending / receiving form
Dup(p) ==
    /\ err = <<>> /\ Running(p)
    /\ LET P == procs[p]
           nd == Node(P) IN
       /\ (IsSending(nd) \/ IsReceiving(nd))
       /\ NeedsDup(P)
       /\ DupDo(p, P, P.nc)

\* errors a single process runs into on its own
Alone(p) ==
    /\ err = <<>> /\ Running(p)
    /\ LET P == procs[p]
           nd == Node(P) IN
       \/ /\ IsSending(nd) /\ ~NeedsDup(P)
          /\ LET I == Intent(P, nd) IN
             IF ~I.ok THEN Fail(p, I.why)
             ELSE /\ I.c \in DOMAIN chans /\ chans[I.c].closed
                  /\ Fail(p, "send on closed channel")
       \/ /\ IsReceiving(nd) /\ ~NeedsDup(P)
          /\ IF nd.k = "wait" /\ Res(P, nd.to) = SELF THEN Fail(p, "wait on self")
             ELSE LET c == Hears(P, nd) IN
                  IF c = NIL THEN Fail(p, "channel not initialized")
                  ELSE /\ c \in DOMAIN chans /\ chans[c].closed     \* a closed Go channel delivers the zero message
                       /\ LET X == Receive(P, nd, ZeroMsg) IN
                          IF X.ok THEN Set([procs EXCEPT ![p] = X.P2], chans, out, Continue(p, X.P2, <<EvMsg("recv", p, c, ZeroMsg)>>))
                          ELSE Fail(p, X.why)
       \/ /\ nd.k = "fwd"
          /\ IF Res(P, nd.to) # SELF THEN Fail(p, "should forward on self")
             ELSE LET c == Res(P, nd.from) IN
                  /\ c \in DOMAIN chans /\ chans[c].closed
                  /\ Fail(p, "send on closed channel")

NPInit == Init /\ mode = NPMode

NPNext ==
    \/ \E s, r \in DOMAIN procs : Comm(s, r)
    \/ \E f, q \in DOMAIN procs : Ctl(f, q)
    \/ \E p \in DOMAIN procs : Internal(p) \/ Dup(p) \/ Alone(p)

NPSpec == NPInit /\ [][NPNext]_vars

\* at quiescence of a run without errors the printed multiset is the expected one (C03 / C04, contraction-free programs)
NPQuiescent == ~ENABLED NPNext
NPExpectedOutcome == (err = <<>> /\ NPQuiescent /\ Expect # <<"?">>) => BagOf(out) = BagOf(Expect)

\* nobody is left waiting to RECEIVE on a live channel at quiescence (senders may stay parked on top-level channels)
NPNoStuckReceiver ==
    (err = <<>> /\ NPQuiescent) => \A p \in DOMAIN procs : ~IsReceiving(Node(procs[p]))
=============================================================================
