------------------------------- MODULE Typing -------------------------------
(***************************************************************************)
(* The type system of Grits as a recursive checker over the node table of   *)
(* a PARSED program (not yet typechecked): the adjoint semi-axiomatic        *)
(* sequent calculus restricted to Grits' documented syntax, with the         *)
(* algorithmic side conditions of the implementation (Appendix C of          *)
(* DESIGN.md): exact context splitting at a cut whose body is an axiom or a  *)
(* call, fresh binders, an empty context at every axiom, provider named by   *)
(* self or by the binder that introduced it.                                 *)
(*                                                                           *)
(*   Check(prog) - the verdict: TRUE iff the program is well typed.          *)
(*                                                                           *)
(* TC(n, G, sh, A) is the judgement  G |- node n :: (self : A)  where sh is  *)
(* the identifier that also denotes the provider ("" if only self does).     *)
(* Types are compared up to Bisim (equi-recursive equality); modes come from *)
(* ModeInfer (the written annotations) and the order from TypeLib.           *)
(*                                                                           *)
(* The module has no variables: TypingConf.tla validates a log of verdicts   *)
(* of the real parser + Typecheck against Check (C05, C06, C07).             *)
(***************************************************************************)
EXTENDS Bisim, ModeInfer, SequencesExt

CONSTANT Relax   \* "none": the type system.  "sub": the same without the substructural discipline (contexts are unrestricted, binders may
                 \* shadow, drop / split always allowed).  "indep": without the declaration of independence.  The relaxed systems only serve to
                 \* say WHY an accepted program has no derivation: C10 (derivable once "wf", the well-formedness of annotation types, is relaxed), C05 (once
                 \* "sub" is), C06 (once "indep" is), C07 (otherwise).

\* ------------------------------------------------------------------ written types of a dump
AnnOf(t) == IF t.k \in {"up", "down", "none"} THEN Unset
            ELSE IF t.mode \in ModeSet THEN t.mode ELSE Unset

RECURSIVE StripM(_)
StripM(t) ==
    CASE t.k = "unit" -> Unit(Unset)
      [] t.k = "name" -> Name(t.name, Unset)
      [] t.k = "send" -> Send(StripM(t.l), StripM(t.r), Unset)
      [] t.k = "recv" -> Recv(StripM(t.l), StripM(t.r), Unset)
      [] t.k = "sel"  -> Sel([i \in 1..Len(t.br) |-> Opt(t.br[i].label, StripM(t.br[i].t))], Unset)
      [] t.k = "bra"  -> Bra([i \in 1..Len(t.br) |-> Opt(t.br[i].label, StripM(t.br[i].t))], Unset)
      [] t.k = "up"   -> UpT(t.from, t.to, StripM(t.t))
      [] t.k = "down" -> DownT(t.from, t.to, StripM(t.t))
      [] OTHER -> t

WrittenDefs(P) == [i \in 1..Len(P.types) |-> [name |-> P.types[i].name, ann |-> AnnOf(P.types[i].t), t |-> StripM(P.types[i].t)]]

\* the moded type an annotation denotes
Moded(W, t) == IF t.k = "none" THEN NoType ELSE InferType(W, AnnOf(t), StripM(t))
AnnWF(W, t) == t.k # "none" /\ (Relax = "wf" \/ AnnOK(W, AnnOf(t), StripM(t)))
\* well-formedness of an annotation type (function signature, process type, cut annotation); dropped by Relax = "wf"
AnnTypeWF(E, t) == Relax = "wf" \/ TypeWF(E, t)

Weak(m) == Relax = "sub" \/ m \in {"rep", "aff"}
Contr(m) == Relax = "sub" \/ m \in {"rep", "mul"}
Indep(a, b) == Relax = "indep" \/ Down(a, b)
Positive(t) == t.k \in {"unit", "send", "sel", "down"}

\* ------------------------------------------------------------------ free names (Form.FreeNames, identifiers only, self excluded)
NmIds(s) == {s[i].id : i \in {j \in 1..Len(s) : ~s[j].self}}
RECURSIVE FNset(_, _)
FNset(T, n) ==
    LET nd == T[n] IN
    CASE nd.k = "send"  -> NmIds(<<nd.to, nd.pay, nd.cont>>)
      [] nd.k = "sel"   -> NmIds(<<nd.to, nd.cont>>)
      [] nd.k = "cast"  -> NmIds(<<nd.to, nd.cont>>)
      [] nd.k = "close" -> NmIds(<<nd.from>>)
      [] nd.k = "fwd"   -> NmIds(<<nd.to, nd.from>>)
      [] nd.k = "call"  -> NmIds(nd.args)
      [] nd.k = "recv"  -> NmIds(<<nd.from>>) \cup (FNset(T, nd.next) \ {nd.pay.id, nd.cont.id})
      [] nd.k = "case"  -> NmIds(<<nd.from>>) \cup UNION {FNset(T, nd.br[b].next) \ {nd.br[b].pay.id} : b \in 1..Len(nd.br)}
      [] nd.k = "new"   -> FNset(T, nd.body) \cup (FNset(T, nd.next) \ {nd.x.id})
      [] nd.k = "split" -> NmIds(<<nd.from>>) \cup (FNset(T, nd.next) \ {nd.a.id, nd.b.id})
      [] nd.k = "wait"  -> NmIds(<<nd.to>>) \cup FNset(T, nd.next)
      [] nd.k = "shift" -> NmIds(<<nd.from>>) \cup (FNset(T, nd.next) \ {nd.cont.id})
      [] nd.k = "drop"  -> NmIds(<<nd.c>>) \cup FNset(T, nd.next)
      [] nd.k = "print" -> FNset(T, nd.next)
      [] OTHER -> {}

\* the names of an axiomatic form in the order the code lists them (duplicates kept: a name listed twice cannot be split off twice)
LeafNames(nd) ==
    LET s == CASE nd.k = "send"  -> <<nd.to, nd.pay, nd.cont>>
               [] nd.k = "sel"   -> <<nd.to, nd.cont>>
               [] nd.k = "cast"  -> <<nd.to, nd.cont>>
               [] nd.k = "close" -> <<nd.from>>
               [] nd.k = "fwd"   -> <<nd.to, nd.from>>
               [] nd.k = "call"  -> nd.args
               [] OTHER -> <<>>
    IN SelectSeq(s, LAMBDA x : ~x.self)

HasContinuation(nd) == nd.k \notin {"send", "sel", "close", "fwd", "call", "cast"}

\* ------------------------------------------------------------------ contexts
Has(G, id) == id \in DOMAIN G
Minus(G, id) == IF Relax = "sub" THEN G ELSE [x \in DOMAIN G \ {id} |-> G[x]]
Fresh(G, id) == Relax = "sub" \/ ~Has(G, id)
Plus(G, id, t) == (id :> t) @@ G
IsProv(nm, sh) == nm.self \/ (sh # "" /\ nm.id = sh)
Usable(G, nm) == ~nm.self /\ Has(G, nm.id)          \* consumeName succeeds

\* take the names of s out of G one after the other: [ok, L, R]
RECURSIVE SplitBy(_, _, _, _)
SplitBy(G, s, i, L) ==
    IF i > Len(s) THEN [ok |-> TRUE, L |-> L, R |-> G]
    ELSE IF ~Has(G, s[i].id) THEN [ok |-> FALSE, L |-> L, R |-> G]
    ELSE SplitBy(Minus(G, s[i].id), s, i + 1, Plus(L, s[i].id, G[s[i].id]))

\* ------------------------------------------------------------------ the judgement
\* P: the dump; E: the moded type definitions; W: the written ones; Rel: bisimilarity on all types of the program
RECURSIVE TC(_, _, _, _, _, _, _, _)

Sig(P, fn) == LET idx == {i \in 1..Len(P.funcs) : P.funcs[i].name = fn}
              IN IF idx = {} THEN 0 ELSE CHOOSE i \in idx : \A j \in idx : j <= i      \* (a map: the last definition wins)

\* consume args[i..] against params[i - off ..]
RECURSIVE ArgsOK(_, _, _, _, _, _, _, _)
ArgsOK(P, E, W, Rel, G, args, i, F) ==
    \* returns [ok, G |-> the remaining context] ; F = [params, off]
    IF i > Len(args) THEN [ok |-> TRUE, G |-> G]
    ELSE IF ~Usable(G, args[i]) THEN [ok |-> FALSE, G |-> G]
    ELSE IF <<G[args[i].id], Moded(W, F.params[i - F.off].t)>> \notin Rel THEN [ok |-> FALSE, G |-> G]
    ELSE ArgsOK(P, E, W, Rel, Minus(G, args[i].id), args, i + 1, F)

TC(P, E, W, Rel, n, G, sh, A) ==
    LET T  == P.nodes
        nd == T[n]
        U(t) == Unf(E, t)
        Eq(a, b) == <<a, b>> \in Rel
        UA == U(A)
        Lin(H) == Relax = "sub" \/ DOMAIN H = {}
        Go(m, H, s2, B) == TC(P, E, W, Rel, m, H, s2, B)
    IN
    CASE nd.k = "send" ->
           IF IsProv(nd.to, sh)
           THEN /\ UA.k = "send"
                /\ Usable(G, nd.pay) /\ Usable(Minus(G, nd.pay.id), nd.cont)
                /\ Eq(UA.l, G[nd.pay.id]) /\ Eq(UA.r, G[nd.cont.id])
                /\ Lin(Minus(Minus(G, nd.pay.id), nd.cont.id))
           ELSE IF IsProv(nd.cont, sh)
           THEN /\ Usable(G, nd.to)
                /\ LET C == U(G[nd.to.id])
                       G1 == Minus(G, nd.to.id) IN
                   /\ C.k = "recv"
                   /\ Usable(G1, nd.pay)
                   /\ Eq(C.l, G1[nd.pay.id]) /\ Eq(C.r, A)
                   /\ Lin(Minus(G1, nd.pay.id))
           ELSE FALSE
      [] nd.k = "recv" ->
           IF IsProv(nd.from, sh)
           THEN /\ UA.k = "recv"
                /\ Fresh(G, nd.pay.id) /\ Fresh(G, nd.cont.id) /\ (Relax = "sub" \/ nd.pay.id # nd.cont.id)
                /\ Go(nd.next, Plus(G, nd.pay.id, U(UA.l)), nd.cont.id, U(UA.r))
           ELSE IF IsProv(nd.pay, sh) \/ IsProv(nd.cont, sh) THEN FALSE
           ELSE /\ Usable(G, nd.from)
                /\ LET C == U(G[nd.from.id])
                       G1 == Minus(G, nd.from.id) IN
                   /\ C.k = "send"
                   /\ Fresh(G1, nd.pay.id) /\ Fresh(G1, nd.cont.id) /\ (Relax = "sub" \/ nd.pay.id # nd.cont.id)
                   /\ Go(nd.next, Plus(Plus(G1, nd.pay.id, U(C.l)), nd.cont.id, U(C.r)), sh, A)
      [] nd.k = "sel" ->
           IF IsProv(nd.to, sh)
           THEN /\ UA.k = "sel" /\ nd.label \in Labels(UA)
                /\ Usable(G, nd.cont)
                /\ Eq(BranchOf(UA, nd.label), G[nd.cont.id])
                /\ Lin(Minus(G, nd.cont.id))
           ELSE IF IsProv(nd.cont, sh)
           THEN /\ Usable(G, nd.to)
                /\ LET C == U(G[nd.to.id]) IN
                   /\ C.k = "bra" /\ nd.label \in Labels(C)
                   /\ Eq(BranchOf(C, nd.label), A)
                   /\ Lin(Minus(G, nd.to.id))
           ELSE FALSE
      [] nd.k = "case" ->
           LET DistinctLabels == \A a, b \in 1..Len(nd.br) : nd.br[a].label = nd.br[b].label => a = b
               Covers(C) == {nd.br[b].label : b \in 1..Len(nd.br)} = Labels(C) IN
           IF IsProv(nd.from, sh)
           THEN /\ UA.k = "bra" /\ DistinctLabels /\ Covers(UA)
                /\ \A b \in 1..Len(nd.br) :
                      /\ Fresh(G, nd.br[b].pay.id)
                      /\ Go(nd.br[b].next, G, nd.br[b].pay.id, BranchOf(UA, nd.br[b].label))
           ELSE /\ Usable(G, nd.from)
                /\ LET C == U(G[nd.from.id])
                       G1 == Minus(G, nd.from.id) IN
                   /\ C.k = "sel" /\ DistinctLabels /\ Covers(C)
                   /\ \A b \in 1..Len(nd.br) :
                         /\ Fresh(G1, nd.br[b].pay.id)
                         /\ Go(nd.br[b].next, Plus(G1, nd.br[b].pay.id, BranchOf(C, nd.br[b].label)), sh, A)
      [] nd.k = "new" ->
           LET x == nd.x.id
               bd == T[nd.body]
               reused == Has(G, x)
               inBody == x \in FNset(T, nd.body) IN
           /\ (Relax = "sub" \/ reused = inBody)
           /\ ~HasContinuation(bd)
           /\ LET S == SplitBy(G, LeafNames(bd), 1, <<>>) IN
              /\ S.ok
              /\ IF bd.k = "call"
                 THEN LET fi == Sig(P, bd.fn) IN
                      /\ fi # 0
                      /\ LET ST == U(Moded(W, P.funcs[fi].t)) IN
                         \* an annotation, when written, must be well formed and equal to what the callee provides (finding F22)
                         /\ (nd.xt.k # "none" => AnnWF(W, nd.xt) /\ AnnTypeWF(E, Moded(W, nd.xt)) /\ Eq(Moded(W, nd.xt), ST))
                         /\ \A y \in DOMAIN S.L : Indep(ModeOf(S.L[y]), ModeOf(ST))
                         /\ Go(nd.body, S.L, x, ST)
                         /\ Go(nd.next, Plus(S.R, x, ST), sh, A)
                         /\ Indep(ModeOf(ST), ModeOf(A))
                 ELSE /\ AnnWF(W, nd.xt)
                      /\ LET XT == Moded(W, nd.xt) IN
                         /\ AnnTypeWF(E, XT)
                         /\ LET XU == U(XT) IN
                            /\ XU.k # "none"
                            /\ \A y \in DOMAIN S.L : Indep(ModeOf(S.L[y]), ModeOf(XU))
                            /\ Indep(ModeOf(XU), ModeOf(A))
                            /\ Go(nd.body, S.L, x, XU)
                            /\ Go(nd.next, Plus(S.R, x, XU), sh, A)
      [] nd.k = "close" -> IsProv(nd.from, sh) /\ UA.k = "unit" /\ Lin(G)
      [] nd.k = "wait" ->
           /\ ~IsProv(nd.to, sh) /\ Usable(G, nd.to)
           /\ U(G[nd.to.id]).k = "unit"
           /\ Go(nd.next, Minus(G, nd.to.id), sh, A)
      [] nd.k = "fwd" ->
           /\ ~IsProv(nd.from, sh) /\ IsProv(nd.to, sh) /\ Usable(G, nd.from)
           /\ Eq(A, G[nd.from.id])
           /\ Positive(U(G[nd.from.id])) = Positive(UA)
           /\ Lin(Minus(G, nd.from.id))
      [] nd.k = "drop" ->
           /\ ~IsProv(nd.c, sh) /\ Usable(G, nd.c)
           /\ Weak(ModeOf(G[nd.c.id]))
           /\ Go(nd.next, Minus(G, nd.c.id), sh, A)
      [] nd.k = "call" ->
           LET fi == Sig(P, nd.fn) IN
           /\ fi # 0
           /\ LET F == P.funcs[fi]
                  np == Len(F.params)
                  na == Len(nd.args) IN
              /\ na \in {np, np + 1}
              /\ (na = np + 1 => IsProv(nd.args[1], sh))
              /\ Eq(A, Moded(W, F.t))
              /\ LET off == IF na = np THEN 0 ELSE 1
                     rest == ArgsOK(P, E, W, Rel, G, nd.args, 1 + off, [params |-> F.params, off |-> off])
                 IN rest.ok /\ Lin(rest.G)
      [] nd.k = "split" ->
           /\ ~IsProv(nd.from, sh) /\ Usable(G, nd.from)
           /\ LET F == U(G[nd.from.id])
                  G1 == Minus(G, nd.from.id) IN
              /\ Fresh(G1, nd.a.id) /\ Fresh(G1, nd.b.id) /\ (Relax = "sub" \/ nd.a.id # nd.b.id)
              /\ Contr(ModeOf(F))
              /\ Go(nd.next, Plus(Plus(G1, nd.a.id, F), nd.b.id, F), sh, A)
      [] nd.k = "cast" ->
           IF IsProv(nd.to, sh)
           THEN /\ UA.k = "down" /\ Down(UA.from, UA.to)
                /\ Usable(G, nd.cont)
                /\ LET found == U(G[nd.cont.id]) IN
                   /\ UA.from = ModeOf(found)
                   /\ Eq(UA.t, found)
                /\ Lin(Minus(G, nd.cont.id))
           ELSE IF IsProv(nd.cont, sh)
           THEN /\ Usable(G, nd.to)
                /\ LET C == U(G[nd.to.id]) IN
                   /\ C.k = "up" /\ Up(C.from, C.to)
                   /\ C.from = ModeOf(UA)
                   /\ Eq(C.t, A)
                /\ Lin(Minus(G, nd.to.id))
           ELSE FALSE
      [] nd.k = "shift" ->
           IF IsProv(nd.from, sh)
           THEN /\ UA.k = "up" /\ Up(UA.from, UA.to)
                /\ Fresh(G, nd.cont.id)
                /\ Go(nd.next, G, nd.cont.id, U(UA.t))
           ELSE IF IsProv(nd.cont, sh) THEN FALSE
           ELSE /\ Usable(G, nd.from)
                /\ LET C == U(G[nd.from.id])
                       G1 == Minus(G, nd.from.id) IN
                   /\ C.k = "down" /\ Down(C.from, C.to)
                   /\ Fresh(G1, nd.cont.id)
                   /\ Go(nd.next, Plus(G1, nd.cont.id, U(C.t)), sh, A)
      [] nd.k = "print" -> Go(nd.next, G, sh, A)
      [] OTHER -> FALSE

\* ------------------------------------------------------------------ all types of a program (the universe of Rel)
RECURSIVE NodeTypes(_, _)
AllTypes(P, W) ==
    {Moded(W, P.funcs[i].t) : i \in 1..Len(P.funcs)}
    \cup UNION {{Moded(W, P.funcs[i].params[j].t) : j \in 1..Len(P.funcs[i].params)} : i \in 1..Len(P.funcs)}
    \cup {Moded(W, P.procs[i].t) : i \in 1..Len(P.procs)}
    \cup {Moded(W, P.nodes[n].xt) : n \in {m \in 1..Len(P.nodes) : P.nodes[m].k = "new"}}
NodeTypes(P, W) == {t \in AllTypes(P, W) : t.k # "none"}

\* ------------------------------------------------------------------ declarations
AllDistinct(s) == \A a, b \in 1..Len(s) : s[a] = s[b] => a = b

FunctionsPrelim(P, E, W) ==
    /\ AllDistinct([i \in 1..Len(P.funcs) |-> P.funcs[i].name])
    /\ \A i \in 1..Len(P.funcs) :
         LET F == P.funcs[i] IN
         /\ AnnWF(W, F.t) /\ AnnTypeWF(E, Moded(W, F.t))
         /\ AllDistinct([j \in 1..Len(F.params) |-> F.params[j].id])
         /\ \A j \in 1..Len(F.params) :
              /\ AnnWF(W, F.params[j].t) /\ AnnTypeWF(E, Moded(W, F.params[j].t))
              /\ Indep(ModeOf(Moded(W, F.params[j].t)), ModeOf(Moded(W, F.t)))

ProvNames(P) == UNION {{P.procs[i].provs[j] : j \in 1..Len(P.procs[i].provs)} : i \in 1..Len(P.procs)}
OwnerOf(P, id) == CHOOSE i \in 1..Len(P.procs) : \E j \in 1..Len(P.procs[i].provs) : P.procs[i].provs[j] = id
UsedBy(P, i) == FNset(P.nodes, P.procs[i].body) \ {P.procs[i].provs[j] : j \in 1..Len(P.procs[i].provs)}

ProcessesPrelim(P, E, W) ==
    /\ AllDistinct(FoldLeft(LAMBDA acc, i : acc \o P.procs[i].provs, <<>>, [i \in 1..Len(P.procs) |-> i]))
    /\ \A i \in 1..Len(P.procs) :
         /\ AnnWF(W, P.procs[i].t) /\ AnnTypeWF(E, Moded(W, P.procs[i].t))
         /\ (Len(P.procs[i].provs) > 1 => Contr(ModeOf(Moded(W, P.procs[i].t))))     \* several provider names = a split
         /\ UsedBy(P, i) \subseteq ProvNames(P)                                     \* closed programs: every free name is a process
    /\ (Relax = "sub" \/ \A i, j \in 1..Len(P.procs) : i # j => UsedBy(P, i) \cap UsedBy(P, j) = {})  \* a top-level name is used by one process only

Check(P) ==
    LET W == WrittenDefs(P) IN
    /\ WFW(W)
    /\ LET E == Infer(W)
           ts == SetToSeq(NodeTypes(P, W))
           Rel == BisimRel(E, [k \in 1..Len(ts) |-> [a |-> ts[k], b |-> ts[k]]])
       IN /\ FunctionsPrelim(P, E, W)
          /\ ProcessesPrelim(P, E, W)
          /\ \A i \in 1..Len(P.funcs) :
               LET F == P.funcs[i] IN
               TC(P, E, W, Rel, F.body, [id \in {F.params[j].id : j \in 1..Len(F.params)} |->
                                            Moded(W, F.params[CHOOSE j \in 1..Len(F.params) : F.params[j].id = id].t)], "", Moded(W, F.t))
          /\ \A i \in 1..Len(P.procs) :
               TC(P, E, W, Rel, P.procs[i].body, [id \in UsedBy(P, i) |-> Moded(W, P.procs[OwnerOf(P, id)].t)], "", Moded(W, P.procs[i].t))

\* the fragment Check speaks about: no explicit polarity marks, binders are identifiers, only known forms
NamesOf(nd) == LET f == {"to", "from", "pay", "cont", "c", "x", "a", "b"} \cap DOMAIN nd
               IN {nd[k] : k \in {q \in f : q \notin {"a", "b"} \/ nd.k = "split"}} \cup (IF nd.k = "call" THEN {nd.args[i] : i \in 1..Len(nd.args)} ELSE {})
                  \cup (IF nd.k = "case" THEN {nd.br[i].pay : i \in 1..Len(nd.br)} ELSE {})
InFragment(P) ==
    \A n \in 1..Len(P.nodes) :
        /\ P.nodes[n].k # "unknown"
        /\ \A nm \in NamesOf(P.nodes[n]) : nm.xpol = ""
=============================================================================
