------------------------------ MODULE Scanner ------------------------------
(***************************************************************************)
(* parser/scanner.go as the state machine it is: one step per inspected     *)
(* character.  The tape is chosen in Init from all sequences over a small    *)
(* alphabet of character classes up to length MaxLen, so TLC enumerates      *)
(* every input of that shape.                                                *)
(*                                                                           *)
(* Intended behaviour (C11, C12): every Scan returns after a number of       *)
(* reads linear in the input; nothing but white space and comments is        *)
(* skipped; a character outside the language's alphabet is reported as an     *)
(* ILLEGAL token (and is not the end of input).                               *)
(* The code's known deviations are separate, named branches enabled by the    *)
(* constant Allowed (a set of finding ids):                                   *)
(*   "F7"  an unterminated block comment makes the scanner read EOF forever   *)
(*   "F8"  an illegal character / NUL ends the token stream like EOF does     *)
(*   "F18" inside a block comment, after any '*', the next '/' (however far)  *)
(*         ends the comment                                                   *)
(*   "F19" after a lone '/' or '\' the following character is swallowed        *)
(***************************************************************************)
EXTENDS Integers, Sequences, FiniteSets, TLC, Json, IOUtils, CSV

CONSTANTS MaxLen, Allowed, Emit

Sigma == {" ", "\n", "a", "o", "1", "2", "/", "*", "\\", "-", "<", "=", ">", "(", "@", "NUL", "BAD"}
WS == {" ", "\n"}
LabelCh == {"a", "o", "1", "2"}
EOFCH == "EOF"

VARIABLES tape, i, st, cur, toks, reads
vars == <<tape, i, st, cur, toks, reads>>

RECURSIVE SeqsUpTo(_)
SeqsUpTo(n) == IF n = 0 THEN {<<>>} ELSE SeqsUpTo(n - 1) \cup {Append(s, c) : s \in {t \in SeqsUpTo(n - 1) : Len(t) = n - 1}, c \in Sigma}

Init == /\ tape \in SeqsUpTo(MaxLen)
        /\ i = 1 /\ st = "start" /\ cur = "" /\ toks = <<>> /\ reads = 0

\* the rune read() delivers at position i: NUL is indistinguishable from end of input unless the code is repaired
Peek == IF i > Len(tape) THEN EOFCH
        ELSE IF tape[i] = "NUL" /\ "F8" \in Allowed THEN EOFCH
        ELSE tape[i]

Tok(t, v) == [tok |-> t, val |-> v]
Emitted(t, v) == toks' = Append(toks, Tok(t, v))

Go(st2, adv, c2) == /\ st' = st2
                    /\ i' = IF adv /\ i <= Len(tape) THEN i + 1 ELSE i
                    /\ cur' = c2
                    /\ reads' = reads + 1
                    /\ UNCHANGED tape

\* an illegal character: reported (intended) or silently the end of the stream (F8)
Illegal(v, adv) ==
    IF "F8" \in Allowed
    THEN /\ Emitted("EOF", "") /\ Go("done", adv, "")
    ELSE /\ Emitted("ILLEGAL", v) /\ Go("start", adv, "")

Step ==
    LET ch == Peek IN
    CASE st = "start" ->
            IF ch \in WS THEN Go("ws", TRUE, "") /\ UNCHANGED toks
            ELSE Go("tok", FALSE, "") /\ UNCHANGED toks
      [] st = "ws" ->
            IF ch \in WS THEN Go("ws", TRUE, "") /\ UNCHANGED toks
            ELSE Go("tok", FALSE, "") /\ UNCHANGED toks
      [] st = "tok" ->
           (CASE ch = EOFCH -> Emitted("EOF", "") /\ Go("done", FALSE, "")
              [] ch = "("   -> Emitted("LPAREN", "(") /\ Go("start", TRUE, "")
              [] ch = ">"   -> Emitted("RANGLE", ">") /\ Go("start", TRUE, "")
              [] ch = "*"   -> Emitted("TIMES", "*") /\ Go("start", TRUE, "")
              [] ch = "/"   -> Go("slash", TRUE, "") /\ UNCHANGED toks
              [] ch \in {"=", "<", "-", "1", "\\"} -> Go("sp", TRUE, ch) /\ UNCHANGED toks
              [] ch \in LabelCh -> Go("label", TRUE, ch) /\ UNCHANGED toks
              [] OTHER -> Illegal(ch, TRUE))
      [] st = "slash" ->   \* consumeIfComment after '/'
           (CASE ch = "/" -> Go("line", TRUE, "") /\ UNCHANGED toks
              [] ch = "*" -> Go("block", TRUE, "") /\ UNCHANGED toks
              [] OTHER    -> Go("sp", FALSE, "/") /\ UNCHANGED toks)
      [] st = "line" ->
            IF ch = "\n" THEN Go("start", TRUE, "") /\ UNCHANGED toks
            ELSE IF ch = EOFCH THEN Go("start", FALSE, "") /\ UNCHANGED toks
            ELSE Go("line", TRUE, "") /\ UNCHANGED toks
      [] st = "block" ->
            IF ch = EOFCH
            THEN IF "F7" \in Allowed THEN Go("block", FALSE, "") /\ UNCHANGED toks     \* reads EOF forever
                 ELSE Go("start", FALSE, "") /\ UNCHANGED toks                          \* the comment ends with the input
            ELSE IF ch = "*" THEN Go("bstar", TRUE, "") /\ UNCHANGED toks
            ELSE Go("block", TRUE, "") /\ UNCHANGED toks
      [] st = "bstar" ->
            IF ch = EOFCH
            THEN IF "F7" \in Allowed THEN Go("bstar", FALSE, "") /\ UNCHANGED toks
                 ELSE Go("start", FALSE, "") /\ UNCHANGED toks
            ELSE IF ch = "/" THEN Go("start", TRUE, "") /\ UNCHANGED toks
            ELSE IF ch = "*" THEN Go("bstar", TRUE, "") /\ UNCHANGED toks
            ELSE IF "F18" \in Allowed THEN Go("bstar", TRUE, "") /\ UNCHANGED toks
            ELSE Go("block", TRUE, "") /\ UNCHANGED toks
      [] st = "sp" ->      \* scanSpecialSymbol(cur): ch is ch2
           (CASE cur = "=" -> IF ch = ">" THEN Emitted("RIGHT_ARROW", "=>") /\ Go("start", TRUE, "")
                              ELSE Emitted("EQUALS", "=") /\ Go("start", FALSE, "")
              [] cur = "<" -> IF ch = "-" THEN Emitted("LEFT_ARROW", "<-") /\ Go("start", TRUE, "")
                              ELSE Emitted("LANGLE", "<") /\ Go("start", FALSE, "")
              [] cur = "-" -> IF ch = "*" THEN Emitted("LOLLI", "-*") /\ Go("start", TRUE, "")
                              ELSE IF ch = "o" THEN Emitted("LOLLI", "-o") /\ Go("start", TRUE, "")
                              ELSE Emitted("MINUS", "-") /\ Go("start", FALSE, "")
              [] cur = "1" -> IF ch \in LabelCh THEN Go("label", FALSE, "1") /\ UNCHANGED toks
                              ELSE Emitted("UNIT", "1") /\ Go("start", FALSE, "")
              [] cur = "\\" -> IF ch = "/" THEN Emitted("DOWN_ARROW", "\\/") /\ Go("start", TRUE, "")
                               ELSE Illegal("\\", "F19" \in Allowed)
              [] cur = "/" -> IF ch = "\\" THEN Emitted("UP_ARROW", "\\/") /\ Go("start", TRUE, "")
                              ELSE Illegal("/", "F19" \in Allowed))
      [] st = "label" ->
            IF ch \in LabelCh THEN Go("label", TRUE, cur \o ch) /\ UNCHANGED toks
            ELSE Emitted("LABEL", cur) /\ Go("start", FALSE, "")

Done == st = "done" /\ UNCHANGED vars
Next == (st # "done" /\ Step) \/ Done
Spec == Init /\ [][Next]_vars /\ WF_vars(st # "done" /\ Step)

\* C11: every scan of every input ends, after a number of character inspections linear in the input
ScanTerminates == <>(st = "done")
LinearReads == reads <= 3 * Len(tape) + 4

\* C12: white space, comments and nothing else is skipped: the non-EOF tokens' lexemes, in order, are exactly
\* the input once white space and comments are removed (checked by the harness on the emitted pairs), and
\* an illegal character never ends the stream silently
NoSilentEnd == (st = "done" /\ "F8" \notin Allowed) => i > Len(tape)

\* hand every (tape, token stream) pair to the harness
EmitDone == (Emit /\ st = "done") => CSVWrite("%1$s", <<ToJson([tape |-> tape, toks |-> toks])>>, IOEnv.VERIF_OUT)
=============================================================================
