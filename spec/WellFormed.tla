----------------------------- MODULE WellFormed -----------------------------
(***************************************************************************)
(* Well-formedness of type definitions and annotation types (C10):          *)
(* every referenced name defined, names defined once, branch labels         *)
(* pairwise distinct, contractive, modes among the four known ones, modes    *)
(* uniform within a type except across shifts, shifts legal, a reference     *)
(* carries the mode of the definition it names.                             *)
(* The types given here already carry a mode on every node (after the        *)
(* mode inference of ModeInfer.tla / the code's SetModalityTypeDef).         *)
(***************************************************************************)
EXTENDS TypeLib

DefinedOnce(E) == \A i, j \in 1..Len(E) : E[i].name = E[j].name => i = j

RECURSIVE RefsDefined(_, _)
RefsDefined(E, t) ==
    CASE t.k = "name" -> Defined(E, t.name)
      [] OTHER -> \A i \in 1..Len(Children(t)) : RefsDefined(E, Children(t)[i])

RECURSIVE LabelsDistinct(_)
LabelsDistinct(t) ==
    /\ t.k \in {"sel", "bra"} => \A i, j \in 1..Len(t.br) : t.br[i].label = t.br[j].label => i = j
    /\ \A i \in 1..Len(Children(t)) : LabelsDistinct(Children(t)[i])

\* a definition is contractive when unfolding its head reaches a structural type
Contractive(E, t) == Unf(E, t).k # "none"

KnownMode(m) == m \in ModeSet

\* modes: t must live at mode cur; structural constructors keep the mode, shifts change it legally
RECURSIVE ModesOK(_, _, _)
ModesOK(E, t, cur) ==
    CASE t.k = "unit" -> KnownMode(t.mode) /\ t.mode = cur
      [] t.k = "name" -> /\ KnownMode(t.mode) /\ t.mode = cur
                         /\ Defined(E, t.name) => ModeOf(DefOf(E, t.name)) = t.mode
      [] t.k \in {"send", "recv"} -> /\ KnownMode(t.mode) /\ t.mode = cur
                                     /\ ModesOK(E, t.l, cur) /\ ModesOK(E, t.r, cur)
      [] t.k \in {"sel", "bra"} -> /\ KnownMode(t.mode) /\ t.mode = cur
                                   /\ \A i \in 1..Len(t.br) : ModesOK(E, t.br[i].t, cur)
      [] t.k = "up" -> /\ KnownMode(t.from) /\ KnownMode(t.to) /\ t.to = cur
                       /\ Up(t.from, t.to)
                       /\ ModesOK(E, t.t, t.from)
      [] t.k = "down" -> /\ KnownMode(t.from) /\ KnownMode(t.to) /\ t.to = cur
                         /\ Down(t.from, t.to)
                         /\ ModesOK(E, t.t, t.from)
      [] OTHER -> FALSE

TypeWF(E, t) == RefsDefined(E, t) /\ LabelsDistinct(t) /\ ModesOK(E, t, ModeOf(t))

WF(E) == /\ DefinedOnce(E)
         /\ \A i \in 1..Len(E) : TypeWF(E, E[i].t)
         /\ \A i \in 1..Len(E) : Contractive(E, E[i].t)

\* which clause fails first (for diagnostics)
Why(E) == IF ~DefinedOnce(E) THEN "duplicate definition"
          ELSE IF \E i \in 1..Len(E) : ~RefsDefined(E, E[i].t) THEN "undefined reference"
          ELSE IF \E i \in 1..Len(E) : ~LabelsDistinct(E[i].t) THEN "duplicate label"
          ELSE IF \E i \in 1..Len(E) : ~ModesOK(E, E[i].t, ModeOf(E[i].t)) THEN "modes"
          ELSE IF \E i \in 1..Len(E) : ~Contractive(E, E[i].t) THEN "not contractive"
          ELSE "ok"
=============================================================================
