------------------------------- MODULE TypeEq -------------------------------
(***************************************************************************)
(* C08: equality of session types is equality of their infinite unfoldings. *)
(* Bisim is the greatest relation R on the (finitely many) sub-terms of the  *)
(* environment and the queried types such that related types, once their     *)
(* head names are unfolded, have the same constructor, mode, shift modes and *)
(* label set, and pairwise related components.                               *)
(*                                                                           *)
(* The module validates a log of calls of the real types.EqualType:          *)
(* Cases[i] = [defs, queries |-> Seq([a, b, ret])]; step i is enabled only   *)
(* if every logged result equals Bisim (CaseOK), so TLC stops at the first    *)
(* call that the specification cannot explain.  The model-level theorems      *)
(* (equivalence relation, invariance under unrolling) are checked on the      *)
(* same environments.                                                         *)
(***************************************************************************)
EXTENDS Bisim, Json, IOUtils

Cases == JsonDeserialize(IOEnv.VERIF_CASES)

VARIABLE i
Init == i = 1
Next == i < Len(Cases) /\ i' = i + 1
Spec == Init /\ [][Next]_i

Case == Cases[i]
Rel  == BisimRel(Case.defs, Case.queries)

\* the environments handed to the real code are well-formed by this specification's own definition
InputsWellFormed == WF(Case.defs)

\* every logged call returned, and returned what the specification says
CaseOK == WF(Case.defs) => \A q \in 1..Len(Case.queries) :
             LET c == Case.queries[q] IN c.ret = (IF <<c.a, c.b>> \in Rel THEN "true" ELSE "false")

\* theorems about the specification itself, on the same environments
IsEquivalence ==
    LET U == Universe(Case.defs, Case.queries) IN
    /\ \A a \in U : <<a, a>> \in Rel
    /\ \A p \in Rel : <<p[2], p[1]>> \in Rel
    /\ \A p, q \in Rel : p[2] = q[1] => <<p[1], q[2]>> \in Rel
UnrollInvariant ==
    \A d \in 1..Len(Case.defs) :
        <<Name(Case.defs[d].name, ModeOf(Case.defs[d].t)), Case.defs[d].t>> \in Rel
=============================================================================
