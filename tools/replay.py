"""spec => code: behaviours of GritsRT / GritsNP found by TLC (one per distinct terminal state of a small program, or sampled with -simulate)
are written out as gate plans (GritsSched.tla) and stepped through the real interpreter (vdrive --plan); the real run must follow the plan
and end as the specification says (printed multiset, error or not)."""
import json, os, collections
import vlib

SCHED_CFG = """INIT SInit
NEXT SNext
CONSTANTS
  Modes = {%(modes)s}
  TraceMode = TRUE
  MaxChans = %(maxchans)d
INVARIANTS Report
CONSTRAINT StateBound
VIEW View
CHECK_DEADLOCK FALSE
"""


def plans_for(progs, work, modes=("async", "sync", "np"), simulate=None, timeout=300, maxchans=60, seed=1, limit_per_prog=40, stop_at_error=False, tag="", workers=None):
    """returns {(prog name, mode): [ {plan, out, err, left} ... ]} - one behaviour per distinct terminal state (exhaustive) or per sampled run"""
    corpus = [{"name": p["name"], "prog": p["dump"], "typed": True, "expect": ["?"]} for p in progs]
    cpath = work.path("corpus_sched%s.json" % tag)
    json.dump(corpus, open(cpath, "w"))
    outp = work.path("sched_out%s.ndjson" % tag)
    if os.path.exists(outp):
        os.remove(outp)
    cfg = SCHED_CFG % {"modes": ", ".join('"%s"' % m for m in modes), "maxchans": maxchans}
    if stop_at_error:
        cfg = cfg.replace("INVARIANTS Report", "INVARIANTS Report NoError")
    extra = ()
    if simulate:
        extra = ("-simulate", "num=%d" % simulate, "-depth", "400", "-seed", str(seed))
    r = vlib.tlc("GritsSched", cfg, env={"VERIF_CORPUS": cpath, "VERIF_SCHED_OUT": outp}, workers=1 if simulate else (workers or vlib.NCPU), timeout=timeout, work=work, extra=extra)
    res = collections.defaultdict(list)
    seen = set()
    if os.path.exists(outp):
        for line in open(outp):
            line = line.strip()
            if not line:
                continue
            try:
                d = json.loads(line)
                if isinstance(d, str):
                    d = json.loads(d)
            except ValueError:
                continue
            name = corpus[d["pi"] - 1]["name"]
            key = (name, d["mode"], json.dumps(d["plan"]))
            if key in seen:
                continue
            seen.add(key)
            if len(res[(name, d["mode"])]) < limit_per_prog:
                res[(name, d["mode"])].append(d)
    if stop_at_error:
        res = collections.defaultdict(list, {k: [b for b in v if b["err"]][:1] for k, v in res.items() if any(b["err"] for b in v)})
    return res, {"ok": r["ok"] or bool(res), "timeout": r["timeout"], "distinct": r["distinct"], "generated": r["generated"], "error_text": r["error_text"]}


def norm_plan(plan):
    out = []
    for st in plan:
        out.append({"rel": [list(x) for x in st["rel"]], "done": [list(x) for x in st["done"]], "ends": [list(x) for x in st["ends"]], "fail": bool(st["fail"])})
    return out


def replay(progs, plans, settle=None):
    """run every plan through the gate; returns list of records {prog, mode, followed, div, why, prints, crash, spec_out, spec_err}"""
    text = {p["name"]: p["text"] for p in progs}
    jobs, meta = [], {}
    for (name, mode), bs in plans.items():
        for k, b in enumerate(bs):
            jid = "%s|%s|plan%d" % (name, mode, k)
            jobs.append({"id": jid, "text": text[name], "mode": mode, "typecheck": True, "execute": True, "monitor": False, "gomaxprocs": 8, "seed": k,
                         "yield": 0.0, "trace": True, "plan": norm_plan(b["plan"]), "max_ms": 60000, "max_events": 30000})
            meta[jid] = b
    res = vlib.run_jobs(os.path.join(vlib.BUILD, "vdrive"), jobs, batch=1, timeout=90)
    out = []
    for j in jobs:
        r, b = res[j["id"]], meta[j["id"]]
        name, mode, _ = j["id"].split("|")
        out.append({"id": j["id"], "prog": name, "mode": mode, "steps": len(b["plan"]), "div": r.get("replay_div", -1), "why": r.get("replay_why", ""),
                    "prints": r.get("prints"), "crash": r.get("crash"), "hang": r.get("hang") or r.get("timeout"), "late": r.get("late", 0), "blocked": r.get("blocked"),
                    "spec_out": list(b["out"]), "spec_err": list(b["err"]), "plan": norm_plan(b["plan"]),
                    "events": [] if r.get("overflow") or r.get("timeout") else (r.get("events") or [])})
    return out


def judge(rec):
    """'agree' | 'diverged' (the code did not follow the plan) | 'outcome' (followed, different outcome) | 'error-reproduced' | 'error-not-reproduced'"""
    if rec["spec_err"]:
        return "error-reproduced" if rec["crash"] else "error-not-reproduced"
    if rec["crash"]:
        return "outcome"
    if rec["hang"]:
        return "diverged"
    if rec["div"] != -1:
        return "diverged"
    if sorted(rec["prints"] or []) != sorted(rec["spec_out"]):
        return "outcome"
    return "agree"
