#!/bin/bash
# allthorough.sh [seed] [ids...] : run the thorough tier of the given checks (default: the ones that do not need the runtime campaign) and print exit codes
seed=${1:-1}; shift
ids=${@:-C05 C06 C07 C08 C09 C10 C11 C12 C15 C16 C17 C18 C19}
cd "$(dirname "$0")/.."
export VERIF_SEED=$seed
python3 tools/vcheck.py --setup > /dev/null 2>&1
for c in $ids; do
  s=$(date +%s)
  out=$(python3 tools/vcheck.py $c --tier thorough 2>&1); rc=$?
  e=$(date +%s)
  echo "== $c seed=$seed exit=$rc secs=$((e-s))"
  echo "$out" | grep -E "^(VIOLATION|HARNESS|BUILD|KNOWN|   )" | cut -c1-300 | head -8
done
