"""C11 (parsing is total), C12 (only complete grammatical texts; nothing silently ignored)."""
import json, time, os, random, base64, re, glob, concurrent.futures
import vlib

SC_CFG = """SPECIFICATION Spec
CONSTANTS
  MaxLen = %(n)d
  Allowed = {%(allowed)s}
  Emit = %(emit)s
INVARIANTS LinearReads NoSilentEnd %(emitinv)s
%(props)s
CHECK_DEADLOCK FALSE
"""

# representatives of the character classes of Scanner.tla (first = canonical)
REPS = {" ": [" ", "\t", "\r", "\v"], "\n": ["\n"], "a": ["a", "Z", "_", "'", "q"], "o": ["o"], "1": ["1"], "2": ["2", "0", "9"],
        "/": ["/"], "*": ["*"], "\\": ["\\"], "-": ["-"], "<": ["<"], "=": ["="], ">": [">"],
        "(": ["(", ")", "[", "]", "{", "}", ".", ";", ":", "|", ",", "+", "&", "%"],
        "@": ["@", "#", "$", "~", "!", "?", "^", "`", "\"", "é", "€"], "NUL": ["\x00"], "BAD": [b"\xff", b"\xc3", b"\xe2\x82"]}
SINGLE = {"(": "LPAREN", ")": "RPAREN", "[": "LSBRACK", "]": "RSBRACK", "{": "LCBRACK", "}": "RCBRACK", ".": "DOT", ";": "SEQUENCE",
          ":": "COLON", "|": "PIPE", ",": "COMMA", "+": "PLUS", "&": "AMPERSAND", "%": "PERCENTAGE"}
CALIB = [("(", "LPAREN"), (")", "RPAREN"), ("[", "LSBRACK"), ("]", "RSBRACK"), ("{", "LCBRACK"), ("}", "RCBRACK"), (".", "DOT"),
         (";", "SEQUENCE"), (":", "COLON"), ("|", "PIPE"), (",", "COMMA"), ("+", "PLUS"), ("&", "AMPERSAND"), ("%", "PERCENTAGE"),
         (">", "RANGLE"), ("*", "TIMES"), ("=", "EQUALS"), ("=>", "RIGHT_ARROW"), ("<", "LANGLE"), ("<-", "LEFT_ARROW"), ("-", "MINUS"),
         ("-*", "LOLLI"), ("1", "UNIT"), ("\\/", "DOWN_ARROW"), ("/\\", "UP_ARROW"), ("abc", "LABEL")]


def b64(x):
    return base64.b64encode(x if isinstance(x, bytes) else x.encode("utf-8")).decode()


def concretize(tape, rng, canonical=False):
    """returns (bytes, expected-token-name substitutions for the '(' class in order)"""
    out, singles = b"", []
    for c in tape:
        reps = REPS[c]
        r = reps[0] if canonical else rng.choice(reps)
        if c == "(":
            singles.append(r)
        out += r if isinstance(r, bytes) else r.encode("utf-8")
    return out, singles


def expected_tokens(toks, singles):
    """spec token stream up to (excluding) the first ILLEGAL / EOF, with the concrete single-char tokens substituted"""
    out, k = [], 0
    illegal = False
    for t in toks:
        if t["tok"] == "EOF":
            break
        if t["tok"] == "ILLEGAL":
            illegal = True
            break
        if t["tok"] == "LPAREN":
            out.append((SINGLE[singles[k]], singles[k])); k += 1
        else:
            out.append((t["tok"], None))
    return out, illegal


def scanner_model(work, n, allowed, emit, liveness):
    outp = work.path("scan_%d.ndjson" % n)
    if os.path.exists(outp):
        os.remove(outp)
    cfg = SC_CFG % {"n": n, "allowed": ", ".join('"%s"' % a for a in allowed), "emit": "TRUE" if emit else "FALSE",
                    "emitinv": "EmitDone" if emit else "", "props": "PROPERTIES ScanTerminates" if liveness else ""}
    r = vlib.tlc("Scanner", cfg, env={"VERIF_OUT": outp}, workers=1 if emit else vlib.NCPU, timeout=1800, work=work)
    pairs = []
    if emit and os.path.exists(outp):
        seen = set()
        for line in open(outp):
            line = line.strip()
            if not line:
                continue
            try:
                d = json.loads(line)
                if isinstance(d, str):
                    d = json.loads(d)
            except ValueError:
                continue
            key = json.dumps(d["tape"])
            if key not in seen:
                seen.add(key)
                pairs.append(d)
    return r, pairs


def calibrate(w):
    text = " ".join(l for l, _ in CALIB)
    r = w.call({"op": "lex", "text": text})
    toks = r.get("tokens") or []
    if len(toks) != len(CALIB):
        return None
    return {int(code): name for (code, _), (_, name) in zip(toks, CALIB)}


def repo_texts():
    ts = []
    for f in sorted(glob.glob(os.path.join(vlib.REPO, "examples", "*.grits")) + glob.glob(os.path.join(vlib.REPO, "examples", "others", "*.grits"))
                    + glob.glob(os.path.join(vlib.VERIF, "corpus", "rt", "*.grits")) + glob.glob(os.path.join(vlib.VERIF, "corpus", "syntax", "*.grits"))):
        ts.append((os.path.basename(f), open(f, encoding="utf-8").read()))
    return ts


def c11():
    t0 = time.time()
    tr = vlib.tier()
    rng = random.Random(vlib.seed())
    vlib.build(("vworker",))
    v = vlib.Verdict("C11")
    n = 3 if tr == "quick" else 4
    with vlib.Work("c11") as work:
        # (1) the intended scanner: every input over the class alphabet up to length n is scanned in linear time, to the end
        r, pairs = scanner_model(work, n, [], True, False)
        rl, _ = scanner_model(work, min(n, 3), [], False, True)
        if not r["ok"] or not rl["ok"]:
            v.harness_errors.append("Scanner.tla (intended behaviour) does not satisfy its own properties: %s %s" % (r["violated"] or r["error_text"], rl["violated"] or rl["error_text"]))
        # (2) the real lexer / parser on every tape (conformance of token streams, return within the bound)
        w = vlib.Worker(timeout=5)
        cal = calibrate(w)
        if cal is None:
            v.harness_errors.append("token calibration failed")
            cal = {}
        calls = mism = 0
        slowest = 0
        slowest_per_byte = 0.0
        samples = []
        reps = 1 if tr == "quick" else 3
        for d in pairs:
            for k in range(reps):
                data, singles = concretize(d["tape"], rng, canonical=(k == 0))
                exp, illegal = expected_tokens(d["toks"], singles)
                rp = w.call({"op": "parse", "b64": b64(data)})
                calls += 1
                if rp.get("hang") or "crash" in rp or "panic" in rp:
                    v.violation("ParseString does not return a program or an error for input %r: %s" % (data, "hang" if rp.get("hang") else (rp.get("crash") or rp.get("panic"))[:200]),
                                {"input_b64": b64(data), "tape": d["tape"]}, {"kind": "hang" if rp.get("hang") else "crash"})
                    continue
                slowest = max(slowest, rp.get("us", 0))
                rlx = w.call({"op": "lex", "b64": b64(data)})
                if "tokens" not in rlx:
                    v.violation("lexing %r does not return" % data, {"input_b64": b64(data)}, {"kind": "lexhang"})
                    continue
                got = [cal.get(int(c), "tok%s" % c) for c, _ in (rlx["tokens"] or [])]
                if got != [t for t, _ in exp]:
                    mism += 1
                    if mism <= 5:
                        v.notes.append("token stream of %r differs from Scanner.tla: real %s spec %s" % (data, got, [t for t, _ in exp]))
                if illegal and rp.get("parse") == "ok":
                    v.notes.append("input %r with an out-of-alphabet character is accepted (C12's concern)" % data)
                if len(samples) < 4 and len(d["tape"]) == n:
                    samples.append({"tape": d["tape"], "bytes": repr(data), "spec_tokens": d["toks"], "real_tokens": got, "parse": rp.get("parse", "")[:80]})
        if mism:
            v.notes.append("%d token streams differ from the specification (conformance lost for the lexer)" % mism)
        # (3) pumping: w^k and long runs of one class parse in time linear in the length (6 us per byte + 0.2 s; re-measured before judging)
        pumped = 0
        target = 150000 if tr == "quick" else 600000

        def timed(big):
            # judged on the processor time of the worker (collector off during the parse), best of up to 5 attempts: wall time on a loaded
            # machine varies by an order of magnitude for one and the same parse
            best = None
            for attempt in range(5):
                rp = w.call({"op": "parse", "b64": b64(big)}, timeout=40)
                if rp.get("hang") or "crash" in rp or "panic" in rp:
                    return rp, None
                t = rp.get("cpu_us", rp.get("us", 0))
                best = t if best is None else min(best, t)
                if best <= 6 * len(big) + 200000:
                    break
                time.sleep(0.3)
            return rp, best

        units = []
        for d in rng.sample(pairs, min(len(pairs), 100 if tr == "quick" else 500)):
            if d["tape"]:
                units.append(concretize(d["tape"], rng, canonical=True)[0])
        # one very long token / comment / white space of each kind
        units += [b"a", b"1", b"9", b"_", b"'", b" ", b"\n", b"(", b"=>", b"<-", b"//", b"/*", b"/* */", b"a ", b"a1_'", b"-*", b"@"]
        for data in units:
            big = data * max(1, target // len(data))
            rp, best = timed(big)
            pumped += 1
            if best is None:
                v.violation("ParseString does not return on %r repeated %d times" % (data, len(big) // len(data)), {"unit_b64": b64(data), "repeat": len(big) // len(data)},
                            {"kind": "pump-hang" if rp.get("hang") else "pump-crash"})
            elif best > 6 * len(big) + 200000:
                v.violation("parsing %d bytes of %r repeated took %d us (not linear: the bound is 6 us per byte + 0.2 s)" % (len(big), data, best),
                            {"unit_b64": b64(data), "repeat": len(big) // len(data), "us": best}, {"kind": "slow"})
            slowest_per_byte = max(slowest_per_byte, best / max(1, len(big))) if best is not None else slowest_per_byte
        # (3b) structured growth: small grammatical texts whose cost could grow faster than their length (sharing between type definitions,
        #      nesting, many declarations); the same time bound applies
        def chain(n, rhs):
            return "".join("type T%d = %s\n" % (i, rhs % {"n": "T%d" % (i + 1)}) for i in range(n)) + "type T%d = 1\n" % n
        k = 26 if tr == "quick" else 40
        families = [("doubling chain of products (%d definitions)" % k, chain(k, "%(n)s * %(n)s")),
                    ("doubling chain of choices", chain(k, "+{a : %(n)s, b : %(n)s}")),
                    ("doubling chain of functions", chain(k, "%(n)s -* %(n)s")),
                    ("doubling chain under shifts", chain(k, "lin /\\ lin (%(n)s * %(n)s)")),
                    ("tripling chain", chain(k, "&{a : %(n)s, b : %(n)s, c : %(n)s}")),
                    ("deeply parenthesised type", "type A = " + "(" * 3000 + "1" + ")" * 3000 + "\n"),
                    ("right-nested product", "type A = " + "1 * " * 20000 + "1\n"),
                    ("many definitions", "".join("type A%d = 1\n" % i for i in range(4000))),
                    ("long alias chain", "".join("type A%d = A%d\n" % (i, i + 1) for i in range(1500)) + "type A1500 = 1\n"),
                    ("many small functions", "".join("let f%d(x : 1) : 1 = wait x; close self\n" % i for i in range(2500))),
                    ("deeply nested cuts", "let f() : 1 = " + "".join("x%d : 1 <- new close self; wait x%d; " % (i, i) for i in range(3000)) + "close self\n")]
        for fname, text in families:
            big = text.encode()
            rp, best = timed(big)
            pumped += 1
            if best is None:
                v.violation("ParseString does not return within 40 s on a %d-byte text: %s" % (len(big), fname), {"input_b64": b64(big), "family": fname},
                            {"kind": "pump-hang" if rp.get("hang") else "pump-crash"})
            elif best > 6 * len(big) + 200000:
                v.violation("parsing %d bytes (%s) took %d us (the bound is 6 us per byte + 0.2 s)" % (len(big), fname, best),
                            {"input_b64": b64(big), "family": fname, "us": best}, {"kind": "slow"})
        # (3c) token-level mutants of real programs: a run of tokens deleted, a token duplicated, two neighbours swapped, a token replaced by another
        #      token of the same text - near-grammatical inputs that byte mutations do not reach (e.g. an empty choice "+{}")
        import typing_oracle as _ty
        tokmut = 0
        srcs = repo_texts() + [(os.path.basename(f), open(f).read()) for f in sorted(glob.glob(os.path.join(vlib.VERIF, "corpus", "typing", "*.grits")))]
        for _ in range(2500 if tr == "quick" else 40000):
            name, text = rng.choice(srcs)
            toks = _ty.tokens(text)
            if len(toks) < 4:
                continue
            k = rng.choice(["del", "del", "del", "dup", "swap", "repl", "hollow", "hollow"])
            i = rng.randrange(len(toks))
            t2 = list(toks)
            if k == "hollow":
                # everything between a bracket and its partner is removed: +{}, f(), case x (), <>, []
                opens = [j for j, t in enumerate(toks) if t in "({[<"]
                if not opens:
                    continue
                i = rng.choice(opens)
                close = {"(": ")", "{": "}", "[": "]", "<": ">"}[toks[i]]
                depth, j = 0, i
                while j < len(toks):
                    if toks[j] == toks[i]:
                        depth += 1
                    elif toks[j] == close:
                        depth -= 1
                        if depth == 0:
                            break
                    j += 1
                if j >= len(toks):
                    continue
                del t2[i + 1:j]
            elif k == "del":
                del t2[i:i + rng.choice([1, 2, 3, 3, 4])]
            elif k == "dup":
                t2.insert(i, t2[i])
            elif k == "swap" and i + 1 < len(t2):
                t2[i], t2[i + 1] = t2[i + 1], t2[i]
            else:
                t2[i] = rng.choice(toks)
            x = (" ".join(t2) + "\n").encode()
            rp = w.call({"op": "parse", "b64": b64(x)})
            tokmut += 1
            if rp.get("hang") or "crash" in rp or "panic" in rp:
                v.violation("ParseString does not return a program or an error on a token-level mutant of %s (%s at token %d): %s" % (name, k, i, str(rp.get("panic") or rp.get("crash") or "hang")[:160]),
                            {"input_b64": b64(x), "source": name}, {"kind": "tok-hang" if rp.get("hang") else "tok-crash"})
        # (4) truncations and byte mutations of real programs
        trunc = 0
        texts = repo_texts()
        for name, text in texts:
            data = text.encode("utf-8")
            cuts = sorted(set(rng.sample(range(len(data) + 1), min(len(data) + 1, 25 if tr == "quick" else 120))))
            for c in cuts:
                variants = [data[:c]]
                if c < len(data):
                    variants.append(data[:c] + bytes([rng.choice([0, 0xff, 0x2f, 0x2a, 0x5c, 0x40])]) + data[c + 1:])
                for x in variants:
                    rp = w.call({"op": "parse", "b64": b64(x)})
                    trunc += 1
                    if rp.get("hang") or "crash" in rp or "panic" in rp:
                        v.violation("ParseString does not return on a truncated/mutated copy of %s (cut at byte %d)" % (name, c), {"input_b64": b64(x), "source": name},
                                    {"kind": "mut-hang" if rp.get("hang") else "mut-crash"})
        w.stop()
        cov = {"states": max(1, r["distinct"] + rl["distinct"]), "transitions": max(1, r["generated"] + rl["generated"]),
               "traces_validated_against_impl": calls - mism, "samples": samples, "tapes_enumerated": len(pairs), "max_tape_length": n,
               "alphabet_classes": len(REPS), "real_parse_calls": calls, "token_stream_mismatches": mism, "pumped_inputs": pumped,
               "truncated_or_mutated_texts": trunc, "token_level_mutants": tokmut, "slowest_parse_us": slowest, "pumped_length_bytes": target, "slowest_pumped_us_per_byte": round(slowest_per_byte, 4),
               "liveness_checked_up_to_length": min(n, 3), "exhaustive": True}
        vlib.write_evidence("C11", "model_checking", cov, time.time() - t0, len(v.violations),
                            ["all inputs over the 17 character classes of Scanner.tla up to the stated length (exhaustive), concretised with one canonical and random representatives per class; longer inputs only by pumping and by truncating / mutating real programs",
                             "the LALR automaton generated by goyacc is exercised, not specified"])
    return v.finish()


# ----------------------------------------------------------------------------- C12
def strip_comments_ws(text):
    """reference removal of comments (// to end of line, /* to the first */)"""
    out, i, n = [], 0, len(text)
    while i < n:
        if text.startswith("/\\", i) or text.startswith("\\/", i):
            out.append(text[i:i + 2]); i += 2       # the shift arrows are tokens: their '/' does not open a comment
        elif text.startswith("//", i):
            j = text.find("\n", i)
            i = n if j < 0 else j
        elif text.startswith("/*", i):
            j = text.find("*/", i + 2)
            i = n if j < 0 else j + 2
            out.append(" ")
        else:
            out.append(text[i]); i += 1
    return "".join(out)


def lexeme_loss(w, cal, text):
    """conservation of characters (C12: nothing but white space and comments is ignored): the lexemes of the real token stream, concatenated,
    must spell the text without its white space and comments.  Returns None when they do, else what the tokens spell from the first difference on."""
    r = w.call({"op": "lex", "text": text})
    if "tokens" not in r:
        return None          # (does not return: C11's concern)
    fixed = {"UP_ARROW": "/\\", "DOWN_ARROW": "\\/"}
    spelled = "".join(fixed.get(cal.get(int(c), ""), v) for c, v in (r["tokens"] or []))
    want = re.sub(r"\s+", "", strip_comments_ws(text))
    if spelled == want:
        return None
    k = 0
    while k < min(len(spelled), len(want)) and spelled[k] == want[k]:
        k += 1
    return spelled[max(0, k - 3):] or "(nothing)"


DECL = re.compile(r"(?<![A-Za-z0-9_'])(type|let|prc|exec|assuming)(?![A-Za-z0-9_'])")


def declared(text):
    """declarations written in a text: (#types, #functions, #process declarations incl. exec, #assuming)"""
    t = strip_comments_ws(text)
    c = {"type": 0, "let": 0, "prc": 0, "exec": 0, "assuming": 0}
    names = {"type": [], "let": [], "prc": []}
    for m in DECL.finditer(t):
        k = m.group(1)
        c[k] += 1
        rest = t[m.end():]
        if k in ("type", "let"):
            mm = re.match(r"\s*([A-Za-z0-9_']+)", rest)
            if mm:
                names[k].append(mm.group(1))
        elif k == "prc":
            mm = re.match(r"\s*\[([^\]]*)\]", rest)
            if mm:
                names[k] += [x.strip() for x in mm.group(1).split(",")]
    return c, names


TOKEN_RE = re.compile(r"\s+|//[^\n]*|/\*.*?\*/|[A-Za-z0-9_']+|=>|<-|-\*|-o|\\/|/\\|.", re.S)

TRICKY_COMMENTS = ["/* a * b / c */", "/**/", "/* * / * */", "// x */ y\n", "/* // */", "/* prc[zz] : 1 = close self */", "/***/", "/* / * */"]
ALIEN = ["@", "#", "$", "~", "!", "?", "^", "`", "\"", "\x00", "é", "\\", "/"]


def relayout(text, rng):
    """same token sequence, different white space / comments between tokens"""
    out = []
    for m in TOKEN_RE.finditer(text):
        tok = m.group(0)
        if tok.isspace() or tok.startswith("//") or tok.startswith("/*"):
            r = rng.random()
            if r < 0.5:
                out.append(tok if not tok.startswith("/") else " ")
            elif r < 0.75:
                out.append(" " + rng.choice(TRICKY_COMMENTS) + " ")
            else:
                out.append(rng.choice([" ", "\n", "\t", "  \n ", "\r\n"]))
        else:
            out.append(tok)
    return "".join(out)


def boundaries(text):
    """offsets between tokens, outside comments (the position right after a // comment is still inside it)"""
    offs = []
    prev = ""
    for m in TOKEN_RE.finditer(text):
        tok = m.group(0)
        if not (tok.startswith("//") or tok.startswith("/*")) and not prev.startswith("//"):
            offs.append(m.start())
        prev = tok
    if not prev.startswith("//"):
        offs.append(len(text))
    return sorted(set(offs))


def c12():
    t0 = time.time()
    tr = vlib.tier()
    rng = random.Random(vlib.seed())
    vlib.build(("vworker",))
    v = vlib.Verdict("C12")
    with vlib.Work("c12") as work:
        n = 3 if tr == "quick" else 4
        r, pairs = scanner_model(work, n, [], True, False)
        if not r["ok"]:
            v.harness_errors.append("Scanner.tla: " + str(r["violated"] or r["error_text"]))
        w = vlib.Worker(timeout=5)
        cal = calibrate(w) or {}
        # (1) lexical level: the lexemes of the real token stream are the input minus white space and comments (NoSilentLoss),
        #     and an out-of-alphabet character is never the silent end of the stream
        lexchecks = silent = conserved = 0
        for d in pairs:
            data, singles = concretize(d["tape"], rng, canonical=True)
            exp, illegal = expected_tokens(d["toks"], singles)
            rp = w.call({"op": "parse", "b64": b64(data)})
            lexchecks += 1
            if illegal and rp.get("parse") == "ok":
                silent += 1
                v.violation("a text with a character outside the language is accepted: %r" % data, {"input_b64": b64(data), "tape": d["tape"]},
                            {"kind": "alien-accepted"})
            if not illegal:
                lost = lexeme_loss(w, cal, data.decode("utf-8", "replace"))
                conserved += 1
                if lost:
                    v.violation("the scanner does not hand every character of %r to the parser: its tokens spell %r" % (data, lost), {"input_b64": b64(data), "tape": d["tape"]},
                                {"kind": "lexeme-loss"})
        # (2) grammatical texts: accepted, with exactly the declarations written in them, under re-layout with tricky comments
        texts = repo_texts()
        good = []
        decl_checked = 0
        for name, text in texts:
            variants = [text] + [relayout(text, rng) for _ in range(2 if tr == "quick" else 8)]
            for k, t in enumerate(variants):
                rp = w.call({"op": "parse", "text": t})
                if k == 0:
                    if rp.get("parse") != "ok":
                        break
                    good.append((name, text))
                if rp.get("parse") != "ok":
                    v.violation("re-laid-out copy of %s is rejected: %s" % (name, str(rp.get("parse") or rp)[:150]), {"text": t, "source": name}, {"kind": "layout-reject"})
                    continue
                lost = lexeme_loss(w, cal, t)
                conserved += 1
                if lost:
                    v.violation("the scanner does not hand every character of a copy of %s to the parser (first difference near %r)" % (name, lost[:60]), {"text": t, "source": name},
                                {"kind": "lexeme-loss"})
                c, names = declared(t)
                decl_checked += 1
                got = (rp.get("ntypes"), rp.get("nfuncs"), rp.get("nprocs"), rp.get("nassumed") and 1 or 0)
                want = (c["type"], c["let"], c["prc"] + c["exec"], 1 if c["assuming"] else 0)
                if got[:3] != want[:3] or sorted(rp.get("typenames") or []) != sorted(names["type"]) or sorted(rp.get("funcnames") or []) != sorted(names["let"]) \
                        or sorted(x for x in (rp.get("procnames") or []) if not x.startswith("exec")) != sorted(names["prc"]):
                    v.violation("parsed program of %s (variant %d) has declarations %s %s, the text has %s %s" % (name, k, got, rp.get("procnames"), want, names["prc"]),
                                {"text": t, "source": name}, {"kind": "decl-mismatch"})
        # (3) insertion of out-of-alphabet material at token boundaries: must be rejected
        ins = acc = 0
        for name, text in good:
            offs = boundaries(text)
            pick = offs if tr != "quick" else rng.sample(offs, min(len(offs), 40))
            for o in pick:
                for a in (ALIEN if tr != "quick" else rng.sample(ALIEN, 4)):
                    if a in ("\\", "/"):
                        # a lone '\' or '/' is outside the alphabet only if it does not complete a two-character token or a comment
                        nxt = text[o:o + 1]
                        prv = text[o - 1:o]
                        if nxt in ("/", "\\", "*") or prv in ("/", "\\", "*"):
                            continue
                    t = text[:o] + a + text[o:]
                    rp = w.call({"op": "parse", "text": t})
                    ins += 1
                    if rp.get("hang") or "crash" in rp:
                        v.notes.append("parser hangs/crashes on insertion (C11)")
                        continue
                    if rp.get("parse") == "ok":
                        acc += 1
                        v.violation("%s with %r inserted at offset %d is accepted" % (name, a, o), {"text": t, "source": name, "offset": o, "inserted": a},
                                    {"kind": "insert-accepted", "at_end": o == len(text)})
        w.stop()
        cov = {"states": max(1, r["distinct"]), "transitions": max(1, r["generated"]), "traces_validated_against_impl": lexchecks - silent,
               "samples": [{"source": g[0]} for g in good[:3]] + [{"tricky_comments": TRICKY_COMMENTS[:3], "inserted_characters": ALIEN}],
               "tapes_enumerated": len(pairs), "grammatical_texts": len(good), "relayout_variants_with_declaration_check": decl_checked,
               "insertions_tried": ins, "insertions_accepted": acc, "exhaustive": False}
        vlib.write_evidence("C12", "model_checking", cov, time.time() - t0, len(v.violations),
                            ["lexical level specified by Scanner.tla (NoSilentEnd, every tape up to the bound); character conservation of the real token stream on every tape without an alien character and on every re-laid-out program; the grammar itself is exercised through the repository's and the corpus' programs, not specified",
                             "declarations written in a text are counted by an independent comment-aware scan for the reserved words type/let/prc/exec/assuming"])
    return v.finish()


CHECKS = {"C11": c11, "C12": c12}
