"""C09 (typechecking is total): TcProto.tla model-checked, every hook log of the real Typecheck validated by
TcProtoTrace.tla, crash / hang / late-crash observation of a large family of parseable inputs."""
import json, os, re, time, glob, random, collections
import vlib

TC_CFG = """SPECIFICATION Spec
CONSTANTS Variant = "%s"
INVARIANTS NilOnlyIfAllOk ErrOnlyIfBad HostAlive OneResult NoPhaseAfterFailure
PROPERTIES NoWorkAfterReturn Returns WorkerFinishes
CHECK_DEADLOCK FALSE
"""
TCTRACE_CFG = """SPECIFICATION TraceSpec
CONSTANTS Variant = "intended"
INVARIANTS NotAllAccepted NilOnlyIfAllOk ErrOnlyIfBad HostAlive OneResult NoPhaseAfterFailure
POSTCONDITION HighWater
CHECK_DEADLOCK FALSE
"""

IDENT = re.compile(r"[A-Za-z_][A-Za-z0-9_']*")
KEYWORDS = {"send", "recv", "receive", "case", "close", "wait", "fwd", "forward", "split", "drop", "new", "shift", "cast", "print", "self",
            "let", "prc", "type", "assuming", "in", "exec", "lin", "aff", "mul", "rep", "linear", "affine", "multicast", "replicable", "of", "end"}


def nonsense(texts, rng, n):
    """programs that (mostly) still parse but are nonsense: undefined / swapped / duplicated names, missing annotations,
    explicit polarity marks, alias cycles, wrong modes"""
    out = []
    tails = ["type Z1 = Z2\ntype Z2 = Z1\n", "type Z3 = Z3\n", "type Z4 = lin (aff /\\ lin 1)\n", "let zf(x : Zundef) : 1 = wait x; close self\n",
             "prc[zq] : 1 = zg(zq)\n", "type Z5 = +{a : 1, a : 1}\n", "let zh(x : lin 1) : rep 1 = wait x; close self\n", "prc[zr, zr] : 1 = close self\n"]
    for i in range(n):
        t = rng.choice(texts)
        lines = t.split("\n")
        for _ in range(rng.randint(1, 3)):
            op = rng.randrange(9)
            ids = [m for m in IDENT.finditer(t) if m.group(0) not in KEYWORDS]
            if op == 0 and ids:      # replace an identifier occurrence by another one (or an undefined one)
                m = rng.choice(ids)
                other = rng.choice([x.group(0) for x in ids] + ["zz", "self"])
                t = t[:m.start()] + other + t[m.end():]
            elif op == 1:            # drop a cut annotation
                t = re.sub(r" : [^;=<]*? <- new", " <- new", t, count=1)
            elif op == 2 and lines:  # duplicate a declaration
                l = rng.choice([x for x in lines if x.strip()] or [""])
                t = t + "\n" + l + "\n"
            elif op == 3 and lines:  # delete a declaration
                k = rng.randrange(len(lines))
                t = "\n".join(lines[:k] + lines[k + 1:])
            elif op == 4 and ids:    # explicit polarity mark
                m = rng.choice(ids)
                t = t[:m.start()] + rng.choice("+-") + t[m.start():]
            elif op == 5:            # change a mode word
                ms = list(re.finditer(r"\b(lin|aff|mul|rep)\b", t))
                if ms:
                    m = rng.choice(ms)
                    t = t[:m.start()] + rng.choice(["lin", "aff", "mul", "rep"]) + t[m.end():]
            elif op == 6:
                t = t + "\n" + rng.choice(tails)
            elif op == 7:            # swap two type names / labels
                if len(ids) >= 2:
                    a, b = rng.sample(ids, 2)
                    if a.start() > b.start():
                        a, b = b, a
                    t = t[:a.start()] + b.group(0) + t[a.end():b.start()] + a.group(0) + t[b.end():]
            else:                    # turn 1 into a named type / a named type into 1
                ms = list(re.finditer(r"\b1\b", t))
                if ms:
                    m = rng.choice(ms)
                    t = t[:m.start()] + rng.choice(["Z1", "zz", "(1 * 1)"]) + t[m.end():]
            lines = t.split("\n")
        out.append({"name": "nonsense/%d" % i, "text": t, "src": "nonsense"})
    return out


def tc_inputs(work):
    import gen
    tier, seed = vlib.tier(), vlib.seed()
    rng = random.Random(seed * 7919 + 13)
    progs, stats = gen.generate(tier, seed, work)
    inputs = [{"name": p["name"], "text": p["text"], "src": "Gen.tla" + ("/mutant" if p["mut"] else "")} for p in progs]
    for f in sorted(glob.glob(os.path.join(vlib.VERIF, "corpus", "tc", "*.grits")) + glob.glob(os.path.join(vlib.VERIF, "corpus", "typing", "*.grits"))
                    + glob.glob(os.path.join(vlib.VERIF, "corpus", "rt", "*.grits"))
                    + glob.glob(os.path.join(vlib.REPO, "examples", "*.grits")) + glob.glob(os.path.join(vlib.REPO, "examples", "others", "*.grits"))):
        inputs.append({"name": "file/" + os.path.basename(f), "text": open(f).read(), "src": "corpus"})
    base = [p["text"] for p in inputs if len(p["text"]) < 4000]
    inputs += nonsense(base, rng, 600 if tier == "quick" else 6000)
    return inputs, stats


def c09():
    t0 = time.time()
    v = vlib.Verdict("C09")
    vlib.build(("vdrive",))
    tier = vlib.tier()
    with vlib.Work("c09") as work:
        # 1. the protocol, model-checked (safety + liveness, every plan of phase outcomes, every interleaving)
        m_int = vlib.tlc("TcProto", TC_CFG % "intended", workers=4, timeout=300, work=work)
        if not m_int["ok"]:
            v.harness_errors.append("TcProto (intended protocol) does not satisfy its own properties: %s" % (m_int["violated"] or m_int["error_text"]))
        m_aw = None
        if tier == "thorough":
            # the specification must tell the two protocols apart: the pinned commit's protocol violates the properties
            m_aw = vlib.tlc("TcProto", TC_CFG % "aswritten", workers=4, timeout=300, work=work)
            if m_aw["ok"]:
                v.harness_errors.append("TcProto accepts the as-written protocol: the properties do not discriminate")
        # 2. the real typechecker on everything
        inputs, gstats = tc_inputs(work)
        jobs = []
        for k, p in enumerate(inputs):
            grace = 1500 if (p["name"].startswith("file/f") or k % 97 == 0) else 30
            jobs.append({"id": p["name"], "text": p["text"], "mode": "async", "typecheck": True, "execute": False, "dump": False, "grace_ms": grace})
        res = vlib.run_jobs(os.path.join(vlib.BUILD, "vdrive"), jobs, batch=12, timeout=20)
        logs = collections.OrderedDict()
        verdicts = collections.Counter()
        parsed = 0
        for p in inputs:
            r = res[p["name"]]
            if r.get("crash"):
                sig = {"kind": "crash", "polarity_on_named_type": "unfold type before checking for polarity" in r["crash"]}
                v.violation("typechecking %s kills the host: %s" % (p["name"], r["crash"][:300]), {"program": p["text"], "crash": r["crash"]}, sig)
                verdicts["crash"] += 1
                continue
            if r.get("hang"):
                v.violation("typechecking %s did not return within the time limit" % p["name"], {"program": p["text"]}, {"kind": "hang"})
                verdicts["hang"] += 1
                continue
            if r.get("parse") != "ok":
                verdicts["unparseable"] += 1
                continue
            parsed += 1
            tc = r.get("tc") or ""
            ev = r.get("tc_events") or []
            verdicts["accept" if tc == "ok" else "reject"] += 1
            if "internal error while typechecking" in tc or "panic" in ev:
                sig = {"kind": "internal-panic", "polarity_on_named_type": "unfold type before checking for polarity" in tc}
                v.violation("typechecking %s panics internally (%s)" % (p["name"], tc[:200]), {"program": p["text"], "result": tc, "events": ev}, sig)
            if tc == "ok" and ("err" in ev or "panic" in ev):
                v.violation("Typecheck reported success for %s although a phase failed: %s" % (p["name"], ev), {"program": p["text"], "events": ev},
                            {"kind": "success-after-failure"})
            want_ret = "ret-nil" if tc == "ok" else "ret-err"
            if ev and ev[-1] != want_ret and want_ret not in ev:
                v.notes.append("%s: returned %r but the hook log is %s" % (p["name"], tc[:60], ev))
            logs.setdefault(tuple(ev), []).append(p["name"])
        # 3. every distinct hook log must be a complete behaviour of the intended protocol
        keys = [k for k in logs if k]
        accepted_logs, rejected_logs = 0, []
        todo = list(keys)
        tstates = 0
        while todo:
            tp = work.path("tclogs_%d.json" % len(todo))
            json.dump([{"log": list(k)} for k in todo], open(tp, "w"))
            r = vlib.tlc("TcProtoTrace", TCTRACE_CFG, env={"VERIF_TRACES": tp}, workers=1, timeout=300, work=work)
            tstates += r["distinct"]
            if r["violated"] == "NotAllAccepted":
                accepted_logs += len(todo)
                todo = []
            elif r["ok"] or r["violated"]:
                m = re.search(r'"TCHW", (\d+)', r["out"])
                ti = int(m.group(1)) if m else 1
                if r["violated"]:
                    mm = re.findall(r"^/\\ ti = (\d+)", r["out"], re.M)
                    ti = int(mm[-1]) if mm else ti
                accepted_logs += ti - 1
                rejected_logs.append((todo[ti - 1], r["violated"] or "not a behaviour of the intended protocol"))
                todo = todo[ti:]
            else:
                v.harness_errors.append("TcProtoTrace: " + (r["error_text"] or "timeout")[:600])
                todo = []
        for k, why in rejected_logs:
            names = logs[k]
            text = next(p["text"] for p in inputs if p["name"] == names[0])
            v.violation("hook log %s of Typecheck (%d programs, e.g. %s) is rejected by TcProtoTrace: %s" % (list(k), len(names), names[0], why),
                        {"program": text, "events": list(k), "programs": names[:10]}, {"kind": "protocol", "log": list(k)})
        empty = len(logs.get((), []))
        # binding self-test: a log with work after the error, and one with success after a panic, must be rejected
        st = {}
        for name, lg in (("intact", ["p1", "p2", "err", "ret-err"]), ("work_after_error", ["p1", "p2", "err", "p3", "ret-err"]),
                         ("success_after_panic", ["p1", "panic", "ret-nil"]), ("two_results", ["p1", "err", "ret-err", "ok"])):
            tp = work.path("tcself.json")
            json.dump([{"log": lg}], open(tp, "w"))
            r = vlib.tlc("TcProtoTrace", TCTRACE_CFG, env={"VERIF_TRACES": tp}, workers=1, timeout=120, work=work)
            st[name] = "accepted" if r["violated"] == "NotAllAccepted" else "rejected"
        st["ok"] = st["intact"] == "accepted" and all(st[k] == "rejected" for k in ("work_after_error", "success_after_panic", "two_results"))
        if not st["ok"]:
            v.harness_errors.append("TcProtoTrace self-test failed: %s" % st)
        if parsed and empty > 0:
            v.harness_errors.append("%d typechecked programs produced no hook events (hooks missing?)" % empty)
        cov = {"states": max(1, m_int["distinct"] + tstates), "transitions": max(1, m_int["generated"] + tstates),
               "traces_validated_against_impl": sum(len(logs[k]) for k in keys if k not in [x[0] for x in rejected_logs]),
               "samples": [{"log": list(k), "programs": len(logs[k]), "example": logs[k][0]} for k in keys[:6]] +
                          [{"program": p["name"], "text": p["text"][:300]} for p in inputs[-2:]],
               "protocol_model": {"variant": "intended", "distinct": m_int["distinct"], "ok": m_int["ok"], "liveness_checked": True},
               "as_written_protocol_rejected_by_model": (None if m_aw is None else (not m_aw["ok"])),
               "inputs_total": len(inputs), "inputs_parsed": parsed, "verdicts": dict(verdicts), "distinct_hook_logs": len(keys),
               "hook_logs_accepted": accepted_logs, "hook_logs_rejected": len(rejected_logs), "trace_selftest": st,
               "inputs_by_source": dict(collections.Counter(p["src"] for p in inputs)), "generator_states": gstats.get("states")}
        vlib.write_evidence("C09", "model_checking", cov, time.time() - t0, len(v.violations),
                            ["inputs: every program Gen.tla emits for this tier/seed (derivations and mutants), the fixed corpora, the repository examples, and seeded text-level nonsense edits of them that still parse",
                             "time bound 20 s per program; late crashes are observed within the lifetime of the batch process (12 programs) plus a 1.5 s grace period on selected inputs",
                             "phase outcomes are inferred by TLC from the logged events (plan is not logged)"])
    return v.finish()


CHECKS = {"C09": c09}


# ----------------------------------------------------------------------------- C18
CLI_MODEL_CFG = """SPECIFICATION Spec
CONSTANTS
  Mode = "model"
  Allowed = {"K3"}
INVARIANTS ExitZeroIff NoRunUnlessChecked NoOutputOnFailure NoExecuteNeverRuns OneDiagnostic PanicOnlyK3
PROPERTIES Terminates
CHECK_DEADLOCK FALSE
"""
CLI_CONF_CFG = """SPECIFICATION Spec
CONSTANTS
  Mode = "conform"
  Allowed = {"K3"}
INVARIANTS ObservationOK ExitZeroIff NoRunUnlessChecked NoOutputOnFailure NoExecuteNeverRuns OneDiagnostic PanicOnlyK3
CHECK_DEADLOCK FALSE
"""

CLI_PROGS = {
    "unparseable": ["prc[a : 1 = close\n", "type A = \n", "prc[a] : 1 = close self @\n", "let f( = 1\n", ""],
    "illtyped_stuck": ["prc[a] : 1 = print hi; wait b; close self\nprc[b] : 1 -* 1 = <x,y> <- recv self; close self\n",
                       "prc[a] : 1 = print q; wait b; close self\nprc[b] : &{l : 1} = case self ( l<z> => close z )\n"],
    "illtyped_panics": ["prc[a] : 1 = wait b; print x; close self\nprc[b] : 1 = c : 1 <- new close self; d : 1 <- new close self; send self<c, d>\n",
                        "prc[a] : 1 = <x, y> <- recv b; print x; close self\nprc[b] : 1 = close self\n"],
    "welltyped_silent": ["prc[a] : 1 = close self\n", "prc[a] : 1 = wait b; close self\nprc[b] : 1 = close self\n",
                         "type A = 1\nlet f() : A = close self\n"],
    "welltyped_prints": ["prc[a] : 1 = print hi; close self\n", "prc[a] : 1 = wait b; print ok; close self\nprc[b] : 1 = print first; close self\n",
                         "let f(x : lin 1) : lin 1 = wait x; print done; close self\nprc[a] : lin 1 = y : lin 1 <- new close self; f(y)\n"],
}


def _cli_args(cfg, path, rng):
    d = lambda: rng.choice(["-", "--"])
    a = []
    if cfg["tc"] == "true":
        a.append(d() + rng.choice(["typecheck", "typecheck=true"]))
    elif cfg["tc"] == "false":
        a.append(d() + "typecheck=false")
    if cfg["ntc"]:
        a.append(d() + "notypecheck")
    if cfg["ex"] == "true":
        a.append(d() + rng.choice(["execute", "execute=true"]))
    elif cfg["ex"] == "false":
        a.append(d() + "execute=false")
    if cfg["nex"]:
        a.append(d() + "noexecute")
    if cfg["sync"]:
        a.append(d() + "sync")
    if cfg["async"] == "false":
        a.append(d() + "async=false")
    if cfg["verb"] != 1 or rng.random() < 0.2:
        a += [d() + "verbosity", str(cfg["verb"])]
    rng.shuffle(a)
    # --verbosity N must stay adjacent
    flat, i = [], 0
    toks = list(a)
    while i < len(toks):
        flat.append(toks[i]); i += 1
    # re-attach values that were separated by the shuffle
    fixed, k = [], 0
    vals = [t for t in flat if t.isdigit()]
    for t in flat:
        if t.isdigit():
            continue
        fixed.append(t)
        if t.lstrip("-") == "verbosity":
            fixed.append(vals.pop(0))
    if cfg["nargs"] >= 1:
        fixed.append(path)
    if cfg["nargs"] == 2:
        fixed.append(rng.choice(["extra", "--noexecute", path]))
    return fixed


def c18():
    import subprocess, concurrent.futures, itertools
    t0 = time.time()
    v = vlib.Verdict("C18")
    vlib.build(("grits",))
    tier, seed = vlib.tier(), vlib.seed()
    rng = random.Random(seed * 31 + 5)
    with vlib.Work("c18") as work:
        m = vlib.tlc("Cli", CLI_MODEL_CFG, workers=8, timeout=600, work=work, env={"VERIF_TRACES": "/dev/null"})
        if not m["ok"]:
            v.harness_errors.append("Cli.tla (model mode) violates its own properties: %s" % (m["violated"] or m["error_text"]))
        # program files
        files = {}
        for cls, texts in CLI_PROGS.items():
            for i, t in enumerate(texts):
                p = work.path("%s_%d.grits" % (cls, i))
                open(p, "w").write(t)
                files.setdefault(cls, []).append(p)
        files["missing"] = [work.path("does_not_exist.grits")]
        if tier == "thorough":
            import gen
            progs, _ = gen.generate("quick", seed, work)
            for i, p in enumerate(progs[:200]):
                cls = "illtyped_any" if p["mut"] else "welltyped_prints"
                fp = work.path("gen_%d.grits" % i)
                open(fp, "w").write(p["text"])
                files.setdefault(cls, []).append(fp)
        # configurations: every switch combination on a default verbosity, plus seeded extras
        cfgs = []
        base = list(itertools.product(["default", "true", "false"], [False, True], ["default", "true", "false"], [False, True],
                                      [False, True], ["default", "false"]))
        classes = sorted(files)
        n = 320 if tier == "quick" else 4000
        for k in range(n):
            tc, ntc, ex, nex, sy, asy = base[k % len(base)] if k < 2 * len(base) else rng.choice(base)
            cls = classes[(k // 3) % len(classes)] if k < 2 * len(base) else rng.choice(classes)
            cfgs.append({"tc": tc, "ntc": ntc, "ex": ex, "nex": nex, "sync": sy, "async": asy,
                         "verb": rng.choice([1, 1, 1, 2, 3, 0, 4]), "nargs": rng.choice([1, 1, 1, 1, 1, 1, 0, 2]), "class": cls})
        binary = os.path.join(vlib.BUILD, "grits")

        def run(cfg):
            r = random.Random(json.dumps(cfg, sort_keys=True) + str(seed))
            path = r.choice(files[cfg["class"]])
            args = _cli_args(cfg, path, r)
            try:
                p = subprocess.run([binary] + args, stdout=subprocess.PIPE, stderr=subprocess.PIPE, timeout=60, cwd=work.dir)
                out, err, rc = p.stdout.decode("utf-8", "replace"), p.stderr.decode("utf-8", "replace"), p.returncode
            except subprocess.TimeoutExpired:
                return {"cfg": cfg, "args": args, "hang": True}
            out = re.sub(r"\x1b\[[0-9;]*m", "", out)   # colour codes of the log lines
            return {"cfg": cfg, "args": args, "file": os.path.basename(path), "exit": rc,
                    "prints": any(l.startswith("> ") for l in out.splitlines()),
                    "spawned": any(re.match(r"Spawning \d+ process", l) for l in out.splitlines()),
                    "diag": sum(1 for l in err.splitlines() if re.match(r"\d{4}/\d\d/\d\d \d\d:\d\d:\d\d ", l)),
                    "panic": ("goroutine " in err and ("panic:" in err or "fatal error:" in err)),
                    "stderr": err[:600], "stdout_head": out[:300]}

        with concurrent.futures.ThreadPoolExecutor(max_workers=vlib.NCPU) as ex:
            obs = list(ex.map(run, cfgs))
        judged = []
        for o in obs:
            if o.get("hang"):
                v.violation("grits %s does not terminate" % " ".join(o["args"]), o, {"kind": "hang"})
                continue
            c = o["cfg"]
            tcres = (not c["ntc"]) and c["tc"] != "false"
            if o["panic"]:
                sig = {"kind": "panic", "typecheck_disabled": not tcres, "class": c["class"] if c["class"] != "illtyped_any" else "illtyped_panics"}
                v.violation("grits %s dies with a Go panic trace: %s" % (" ".join(o["args"]), o["stderr"][:200]), o, sig)
                if not (sig["typecheck_disabled"] and sig["class"] == "illtyped_panics"):
                    continue
            judged.append(o)
        # conformance of every observation with the terminal state of Cli.tla
        # (illtyped_any: the run-time behaviour of an arbitrary ill-typed program is unknown; only invocations that never reach execution are judged)
        def reaches_exec(c):
            tcres = (not c["ntc"]) and c["tc"] != "false"
            exres = (not c["nex"]) and c["ex"] != "false"
            return c["nargs"] == 1 and not tcres and exres
        conf = [o for o in judged if not (o["cfg"]["class"] == "illtyped_any" and reaches_exec(o["cfg"]))]
        for o in conf:
            if o["cfg"]["class"] == "illtyped_any":
                o["cfg"] = dict(o["cfg"], **{"class": "illtyped_stuck"})
        rejected, accepted, cstates = [], 0, 0
        todo = list(conf)
        while todo:
            tp = work.path("cli_obs_%d.json" % len(todo))
            json.dump([{k: o[k] for k in ("cfg", "exit", "prints", "spawned", "diag", "panic")} for o in todo], open(tp, "w"))
            r = vlib.tlc("Cli", CLI_CONF_CFG, env={"VERIF_TRACES": tp}, workers=4, timeout=600, work=work)
            cstates += r["distinct"]
            if r["ok"]:
                accepted += len(todo)
                todo = []
            elif r["violated"]:
                mm = re.findall(r"^/\\ oi = (\d+)", r["out"], re.M)
                oi = int(mm[-1]) if mm else 1
                bad = todo[oi - 1]
                rejected.append((bad, r["violated"]))
                todo = todo[:oi - 1] + todo[oi:]
            else:
                v.harness_errors.append("Cli conformance run failed: " + (r["error_text"] or "timeout")[:600])
                todo = []
        for bad, inv in rejected:
            v.violation("grits %s (file class %s): exit=%s output=%s spawned=%s diagnostics=%s contradicts Cli.tla (%s)" %
                        (" ".join(bad["args"]), bad["cfg"]["class"], bad["exit"], bad["prints"], bad["spawned"], bad["diag"], inv), bad,
                        {"kind": "gatekeeping", "inv": inv})
        # binding self-test: a flipped exit status must be rejected
        st = {"ran": False}
        good = [o for o in conf if o not in [b for b, _ in rejected]]
        if good:
            o = dict(good[0]); o = {k: o[k] for k in ("cfg", "exit", "prints", "spawned", "diag", "panic")}
            o["exit"] = 1 - o["exit"] if o["exit"] in (0, 1) else 0
            tp = work.path("cli_self.json")
            json.dump([o], open(tp, "w"))
            r = vlib.tlc("Cli", CLI_CONF_CFG, env={"VERIF_TRACES": tp}, workers=1, timeout=120, work=work)
            st = {"ran": True, "corrupt_exit": "rejected" if r["violated"] else "accepted", "ok": bool(r["violated"])}
            if not st["ok"]:
                v.harness_errors.append("Cli conformance self-test: a flipped exit status was accepted")
        cov = {"states": max(1, m["distinct"] + cstates), "transitions": max(1, m["generated"] + cstates),
               "traces_validated_against_impl": accepted,
               "samples": [{k: o.get(k) for k in ("args", "file", "exit", "prints", "spawned", "diag", "panic")} for o in obs[:4] + obs[-2:]],
               "model_configurations": 15120 if m["ok"] else 0, "model_ok": m["ok"], "invocations": len(obs), "invocations_conforming": accepted,
               "invocations_rejected": len(rejected), "panics_observed": sum(1 for o in obs if o.get("panic")),
               "classes": {c: len(files[c]) for c in files}, "selftest": st,
               "switch_combinations_covered": len({(o["cfg"]["tc"], o["cfg"]["ntc"], o["cfg"]["ex"], o["cfg"]["nex"], o["cfg"]["sync"], o["cfg"]["async"]) for o in obs})}
        vlib.write_evidence("C18", "model_checking", cov, time.time() - t0, len(v.violations),
                            ["program files: a fixed pool per class (thorough: plus generated derivations and mutants); the class of a file is assigned by construction",
                             "observables: exit status, 'Spawning' line, '> ' lines, log.Fatal lines on stderr, Go panic trace on stderr"])
    return v.finish()


CHECKS["C18"] = c18
