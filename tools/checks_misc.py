"""C09 (typechecking is total): TcProto.tla model-checked, every hook log of the real Typecheck validated by
TcProtoTrace.tla, crash / hang / late-crash observation of a large family of parseable inputs."""
import json, os, re, time, glob, random, collections
import vlib

TC_CFG = """SPECIFICATION Spec
CONSTANTS Variant = "%s"
INVARIANTS NilOnlyIfAllOk ErrOnlyIfBad HostAlive OneResult NoPhaseAfterFailure
PROPERTIES NoWorkAfterReturn Returns WorkerFinishes
CHECK_DEADLOCK FALSE
"""
TCTRACE_CFG = """SPECIFICATION TraceSpec
CONSTANTS Variant = "intended"
INVARIANTS NotAllAccepted NilOnlyIfAllOk ErrOnlyIfBad HostAlive OneResult NoPhaseAfterFailure
POSTCONDITION HighWater
CHECK_DEADLOCK FALSE
"""

IDENT = re.compile(r"[A-Za-z_][A-Za-z0-9_']*")
KEYWORDS = {"send", "recv", "receive", "case", "close", "wait", "fwd", "forward", "split", "drop", "new", "shift", "cast", "print", "self",
            "let", "prc", "type", "assuming", "in", "exec", "lin", "aff", "mul", "rep", "linear", "affine", "multicast", "replicable", "of", "end"}


def nonsense(texts, rng, n):
    """programs that (mostly) still parse but are nonsense: undefined / swapped / duplicated names, missing annotations,
    explicit polarity marks, alias cycles, wrong modes"""
    out = []
    tails = ["type Z1 = Z2\ntype Z2 = Z1\n", "type Z3 = Z3\n", "type Z4 = lin (aff /\\ lin 1)\n", "let zf(x : Zundef) : 1 = wait x; close self\n",
             "prc[zq] : 1 = zg(zq)\n", "type Z5 = +{a : 1, a : 1}\n", "let zh(x : lin 1) : rep 1 = wait x; close self\n", "prc[zr, zr] : 1 = close self\n"]
    for i in range(n):
        t = rng.choice(texts)
        lines = t.split("\n")
        for _ in range(rng.randint(1, 3)):
            op = rng.randrange(9)
            ids = [m for m in IDENT.finditer(t) if m.group(0) not in KEYWORDS]
            if op == 0 and ids:      # replace an identifier occurrence by another one (or an undefined one)
                m = rng.choice(ids)
                other = rng.choice([x.group(0) for x in ids] + ["zz", "self"])
                t = t[:m.start()] + other + t[m.end():]
            elif op == 1:            # drop a cut annotation
                t = re.sub(r" : [^;=<]*? <- new", " <- new", t, count=1)
            elif op == 2 and lines:  # duplicate a declaration
                l = rng.choice([x for x in lines if x.strip()] or [""])
                t = t + "\n" + l + "\n"
            elif op == 3 and lines:  # delete a declaration
                k = rng.randrange(len(lines))
                t = "\n".join(lines[:k] + lines[k + 1:])
            elif op == 4 and ids:    # explicit polarity mark
                m = rng.choice(ids)
                t = t[:m.start()] + rng.choice("+-") + t[m.start():]
            elif op == 5:            # change a mode word
                ms = list(re.finditer(r"\b(lin|aff|mul|rep)\b", t))
                if ms:
                    m = rng.choice(ms)
                    t = t[:m.start()] + rng.choice(["lin", "aff", "mul", "rep"]) + t[m.end():]
            elif op == 6:
                t = t + "\n" + rng.choice(tails)
            elif op == 7:            # swap two type names / labels
                if len(ids) >= 2:
                    a, b = rng.sample(ids, 2)
                    if a.start() > b.start():
                        a, b = b, a
                    t = t[:a.start()] + b.group(0) + t[a.end():b.start()] + a.group(0) + t[b.end():]
            else:                    # turn 1 into a named type / a named type into 1
                ms = list(re.finditer(r"\b1\b", t))
                if ms:
                    m = rng.choice(ms)
                    t = t[:m.start()] + rng.choice(["Z1", "zz", "(1 * 1)"]) + t[m.end():]
            lines = t.split("\n")
        out.append({"name": "nonsense/%d" % i, "text": t, "src": "nonsense"})
    return out


def tc_inputs(work):
    import gen
    tier, seed = vlib.tier(), vlib.seed()
    rng = random.Random(seed * 7919 + 13)
    progs, stats = gen.generate(tier, seed, work)
    inputs = [{"name": p["name"], "text": p["text"], "src": "Gen.tla" + ("/mutant" if p["mut"] else "")} for p in progs]
    for f in sorted(glob.glob(os.path.join(vlib.VERIF, "corpus", "tc", "*.grits")) + glob.glob(os.path.join(vlib.VERIF, "corpus", "typing", "*.grits"))
                    + glob.glob(os.path.join(vlib.VERIF, "corpus", "rt", "*.grits"))
                    + glob.glob(os.path.join(vlib.REPO, "examples", "*.grits")) + glob.glob(os.path.join(vlib.REPO, "examples", "others", "*.grits"))):
        inputs.append({"name": "file/" + os.path.basename(f), "text": open(f).read(), "src": "corpus"})
    base = [p["text"] for p in inputs if len(p["text"]) < 4000]
    inputs += nonsense(base, rng, 600 if tier == "quick" else 6000)
    return inputs, stats


def c09():
    t0 = time.time()
    v = vlib.Verdict("C09")
    vlib.build(("vdrive",))
    tier = vlib.tier()
    with vlib.Work("c09") as work:
        # 1. the protocol, model-checked (safety + liveness, every plan of phase outcomes, every interleaving)
        m_int = vlib.tlc("TcProto", TC_CFG % "intended", workers=4, timeout=300, work=work)
        if not m_int["ok"]:
            v.harness_errors.append("TcProto (intended protocol) does not satisfy its own properties: %s" % (m_int["violated"] or m_int["error_text"]))
        m_aw = None
        if tier == "thorough":
            # the specification must tell the two protocols apart: the pinned commit's protocol violates the properties
            m_aw = vlib.tlc("TcProto", TC_CFG % "aswritten", workers=4, timeout=300, work=work)
            if m_aw["ok"]:
                v.harness_errors.append("TcProto accepts the as-written protocol: the properties do not discriminate")
        # 2. the real typechecker on everything
        inputs, gstats = tc_inputs(work)
        jobs = []
        for k, p in enumerate(inputs):
            grace = 1500 if (p["name"].startswith("file/f") or k % 97 == 0) else 30
            jobs.append({"id": p["name"], "text": p["text"], "mode": "async", "typecheck": True, "execute": False, "dump": False, "grace_ms": grace})
        res = vlib.run_jobs(os.path.join(vlib.BUILD, "vdrive"), jobs, batch=12, timeout=20)
        logs = collections.OrderedDict()
        verdicts = collections.Counter()
        parsed = 0
        for p in inputs:
            r = res[p["name"]]
            if r.get("crash"):
                sig = {"kind": "crash", "polarity_on_named_type": "unfold type before checking for polarity" in r["crash"]}
                v.violation("typechecking %s kills the host: %s" % (p["name"], r["crash"][:300]), {"program": p["text"], "crash": r["crash"]}, sig)
                verdicts["crash"] += 1
                continue
            if r.get("hang"):
                v.violation("typechecking %s did not return within the time limit" % p["name"], {"program": p["text"]}, {"kind": "hang"})
                verdicts["hang"] += 1
                continue
            if r.get("parse") != "ok":
                verdicts["unparseable"] += 1
                continue
            parsed += 1
            tc = r.get("tc") or ""
            ev = r.get("tc_events") or []
            verdicts["accept" if tc == "ok" else "reject"] += 1
            if "internal error while typechecking" in tc or "panic" in ev:
                sig = {"kind": "internal-panic", "polarity_on_named_type": "unfold type before checking for polarity" in tc}
                v.violation("typechecking %s panics internally (%s)" % (p["name"], tc[:200]), {"program": p["text"], "result": tc, "events": ev}, sig)
            if tc == "ok" and ("err" in ev or "panic" in ev):
                v.violation("Typecheck reported success for %s although a phase failed: %s" % (p["name"], ev), {"program": p["text"], "events": ev},
                            {"kind": "success-after-failure"})
            want_ret = "ret-nil" if tc == "ok" else "ret-err"
            if ev and ev[-1] != want_ret and want_ret not in ev:
                v.notes.append("%s: returned %r but the hook log is %s" % (p["name"], tc[:60], ev))
            logs.setdefault(tuple(ev), []).append(p["name"])
        # 3. every distinct hook log must be a complete behaviour of the intended protocol
        keys = [k for k in logs if k]
        accepted_logs, rejected_logs = 0, []
        todo = list(keys)
        tstates = 0
        while todo:
            tp = work.path("tclogs_%d.json" % len(todo))
            json.dump([{"log": list(k)} for k in todo], open(tp, "w"))
            r = vlib.tlc("TcProtoTrace", TCTRACE_CFG, env={"VERIF_TRACES": tp}, workers=1, timeout=300, work=work)
            tstates += r["distinct"]
            if r["violated"] == "NotAllAccepted":
                accepted_logs += len(todo)
                todo = []
            elif r["ok"] or r["violated"]:
                m = re.search(r'"TCHW", (\d+)', r["out"])
                ti = int(m.group(1)) if m else 1
                if r["violated"]:
                    mm = re.findall(r"^/\\ ti = (\d+)", r["out"], re.M)
                    ti = int(mm[-1]) if mm else ti
                accepted_logs += ti - 1
                rejected_logs.append((todo[ti - 1], r["violated"] or "not a behaviour of the intended protocol"))
                todo = todo[ti:]
            else:
                v.harness_errors.append("TcProtoTrace: " + (r["error_text"] or "timeout")[:600])
                todo = []
        for k, why in rejected_logs:
            names = logs[k]
            text = next(p["text"] for p in inputs if p["name"] == names[0])
            v.violation("hook log %s of Typecheck (%d programs, e.g. %s) is rejected by TcProtoTrace: %s" % (list(k), len(names), names[0], why),
                        {"program": text, "events": list(k), "programs": names[:10]}, {"kind": "protocol", "log": list(k)})
        empty = len(logs.get((), []))
        # binding self-test: a log with work after the error, and one with success after a panic, must be rejected
        st = {}
        for name, lg in (("intact", ["p1", "p2", "err", "ret-err"]), ("work_after_error", ["p1", "p2", "err", "p3", "ret-err"]),
                         ("success_after_panic", ["p1", "panic", "ret-nil"]), ("two_results", ["p1", "err", "ret-err", "ok"])):
            tp = work.path("tcself.json")
            json.dump([{"log": lg}], open(tp, "w"))
            r = vlib.tlc("TcProtoTrace", TCTRACE_CFG, env={"VERIF_TRACES": tp}, workers=1, timeout=120, work=work)
            st[name] = "accepted" if r["violated"] == "NotAllAccepted" else "rejected"
        st["ok"] = st["intact"] == "accepted" and all(st[k] == "rejected" for k in ("work_after_error", "success_after_panic", "two_results"))
        if not st["ok"]:
            v.harness_errors.append("TcProtoTrace self-test failed: %s" % st)
        if parsed and empty > 0:
            v.harness_errors.append("%d typechecked programs produced no hook events (hooks missing?)" % empty)
        cov = {"states": max(1, m_int["distinct"] + tstates), "transitions": max(1, m_int["generated"] + tstates),
               "traces_validated_against_impl": sum(len(logs[k]) for k in keys if k not in [x[0] for x in rejected_logs]),
               "samples": [{"log": list(k), "programs": len(logs[k]), "example": logs[k][0]} for k in keys[:6]] +
                          [{"program": p["name"], "text": p["text"][:300]} for p in inputs[-2:]],
               "protocol_model": {"variant": "intended", "distinct": m_int["distinct"], "ok": m_int["ok"], "liveness_checked": True},
               "as_written_protocol_rejected_by_model": (None if m_aw is None else (not m_aw["ok"])),
               "inputs_total": len(inputs), "inputs_parsed": parsed, "verdicts": dict(verdicts), "distinct_hook_logs": len(keys),
               "hook_logs_accepted": accepted_logs, "hook_logs_rejected": len(rejected_logs), "trace_selftest": st,
               "inputs_by_source": dict(collections.Counter(p["src"] for p in inputs)), "generator_states": gstats.get("states")}
        vlib.write_evidence("C09", "model_checking", cov, time.time() - t0, len(v.violations),
                            ["inputs: every program Gen.tla emits for this tier/seed (derivations and mutants), the fixed corpora, the repository examples, and seeded text-level nonsense edits of them that still parse",
                             "time bound 20 s per program; late crashes are observed within the lifetime of the batch process (12 programs) plus a 1.5 s grace period on selected inputs",
                             "phase outcomes are inferred by TLC from the logged events (plan is not logged)"])
    return v.finish()


CHECKS = {"C09": c09}


# ----------------------------------------------------------------------------- C18
CLI_MODEL_CFG = """SPECIFICATION Spec
CONSTANTS
  Mode = "model"
  Allowed = {"K3"}
INVARIANTS ExitZeroIff NoRunUnlessChecked NoOutputOnFailure NoExecuteNeverRuns OneDiagnostic PanicOnlyK3
PROPERTIES Terminates
CHECK_DEADLOCK FALSE
"""
CLI_CONF_CFG = """SPECIFICATION Spec
CONSTANTS
  Mode = "conform"
  Allowed = {"K3"}
INVARIANTS ObservationOK ExitZeroIff NoRunUnlessChecked NoOutputOnFailure NoExecuteNeverRuns OneDiagnostic PanicOnlyK3
CHECK_DEADLOCK FALSE
"""

CLI_PROGS = {
    "unparseable": ["prc[a : 1 = close\n", "type A = \n", "prc[a] : 1 = close self @\n", "let f( = 1\n", ""],
    "illtyped_stuck": ["prc[a] : 1 = print hi; wait b; close self\nprc[b] : 1 -* 1 = <x,y> <- recv self; close self\n",
                       "prc[a] : 1 = print q; wait b; close self\nprc[b] : &{l : 1} = case self ( l<z> => close z )\n",
                       # the checker fails INTERNALLY on the function (known finding F5: explicit polarity mark on a name of named type); the process is
                       # never checked - it must not be run either
                       "type B = 1\ntype A = &{l : B}\nlet f(x : A) : B = x.l<+self>\nprc[a] : 1 = print leaked; close self\n"],
    "illtyped_panics": ["prc[a] : 1 = wait b; print x; close self\nprc[b] : 1 = c : 1 <- new close self; d : 1 <- new close self; send self<c, d>\n",
                        "prc[a] : 1 = <x, y> <- recv b; print x; close self\nprc[b] : 1 = close self\n"],
    "welltyped_silent": ["prc[a] : 1 = close self\n", "prc[a] : 1 = wait b; close self\nprc[b] : 1 = close self\n",
                         "type A = 1\nlet f() : A = close self\n"],
    "welltyped_prints": ["prc[a] : 1 = print hi; close self\n", "prc[a] : 1 = wait b; print ok; close self\nprc[b] : 1 = print first; close self\n",
                         "let f(x : lin 1) : lin 1 = wait x; print done; close self\nprc[a] : lin 1 = y : lin 1 <- new close self; f(y)\n"],
}


def _cli_args(cfg, path, rng):
    d = lambda: rng.choice(["-", "--"])
    a = []
    if cfg["tc"] == "true":
        a.append(d() + rng.choice(["typecheck", "typecheck=true"]))
    elif cfg["tc"] == "false":
        a.append(d() + "typecheck=false")
    if cfg["ntc"]:
        a.append(d() + "notypecheck")
    if cfg["ex"] == "true":
        a.append(d() + rng.choice(["execute", "execute=true"]))
    elif cfg["ex"] == "false":
        a.append(d() + "execute=false")
    if cfg["nex"]:
        a.append(d() + "noexecute")
    if cfg["sync"]:
        a.append(d() + "sync")
    if cfg["async"] == "false":
        a.append(d() + "async=false")
    if cfg["verb"] != 1 or rng.random() < 0.2:
        a += [d() + "verbosity", str(cfg["verb"])]
    rng.shuffle(a)
    # --verbosity N must stay adjacent
    flat, i = [], 0
    toks = list(a)
    while i < len(toks):
        flat.append(toks[i]); i += 1
    # re-attach values that were separated by the shuffle
    fixed, k = [], 0
    vals = [t for t in flat if t.isdigit()]
    for t in flat:
        if t.isdigit():
            continue
        fixed.append(t)
        if t.lstrip("-") == "verbosity":
            fixed.append(vals.pop(0))
    if cfg["nargs"] >= 1:
        fixed.append(path)
    if cfg["nargs"] == 2:
        fixed.append(rng.choice(["extra", "--noexecute", path]))
    return fixed


def c18():
    import subprocess, concurrent.futures, itertools
    t0 = time.time()
    v = vlib.Verdict("C18")
    vlib.build(("grits",))
    tier, seed = vlib.tier(), vlib.seed()
    rng = random.Random(seed * 31 + 5)
    with vlib.Work("c18") as work:
        m = vlib.tlc("Cli", CLI_MODEL_CFG, workers=8, timeout=600, work=work, env={"VERIF_TRACES": "/dev/null"})
        if not m["ok"]:
            v.harness_errors.append("Cli.tla (model mode) violates its own properties: %s" % (m["violated"] or m["error_text"]))
        # program files
        files = {}
        for cls, texts in CLI_PROGS.items():
            for i, t in enumerate(texts):
                p = work.path("%s_%d.grits" % (cls, i))
                open(p, "w").write(t)
                files.setdefault(cls, []).append(p)
        files["missing"] = [work.path("does_not_exist.grits")]
        if tier == "thorough":
            import gen
            progs, _ = gen.generate("quick", seed, work)
            for i, p in enumerate(progs[:200]):
                if not p["mut"] and re.search(r"\b(fwd|split|drop)\b", p["text"]):
                    continue      # forwards need polarities, i.e. types, at run time: with typechecking disabled such a program is K3's case, not a member of this class
                cls = "illtyped_any" if p["mut"] else "welltyped_prints"
                fp = work.path("gen_%d.grits" % i)
                open(fp, "w").write(p["text"])
                files.setdefault(cls, []).append(fp)
        # configurations: every switch combination on a default verbosity, plus seeded extras
        cfgs = []
        base = list(itertools.product(["default", "true", "false"], [False, True], ["default", "true", "false"], [False, True],
                                      [False, True], ["default", "false"]))
        classes = sorted(files)
        n = 320 if tier == "quick" else 4000
        for k in range(n):
            tc, ntc, ex, nex, sy, asy = base[k % len(base)] if k < 2 * len(base) else rng.choice(base)
            cls = classes[(k // 3) % len(classes)] if k < 2 * len(base) else rng.choice(classes)
            cfgs.append({"tc": tc, "ntc": ntc, "ex": ex, "nex": nex, "sync": sy, "async": asy,
                         "verb": rng.choice([1, 1, 1, 2, 3, 0, 4]), "nargs": rng.choice([1, 1, 1, 1, 1, 1, 0, 2]), "class": cls})
        binary = os.path.join(vlib.BUILD, "grits")

        def run(cfg):
            # a program that prints is given up to three executions to do so: the interpreter declares quiescence after 50 ms without a heartbeat,
            # which on a loaded machine can come before the first step of a process
            o = run1(cfg)
            for _ in range(2):
                if o.get("hang") or o.get("prints") or not o.get("spawned") or o.get("panic") or cfg["class"] not in ("welltyped_prints", "illtyped_stuck"):
                    break
                o = run1(cfg)
            return o

        def run1(cfg):
            r = random.Random(json.dumps(cfg, sort_keys=True) + str(seed))
            path = r.choice(files[cfg["class"]])
            args = _cli_args(cfg, path, r)
            try:
                p = subprocess.run([binary] + args, stdout=subprocess.PIPE, stderr=subprocess.PIPE, timeout=60, cwd=work.dir)
                out, err, rc = p.stdout.decode("utf-8", "replace"), p.stderr.decode("utf-8", "replace"), p.returncode
            except subprocess.TimeoutExpired:
                return {"cfg": cfg, "args": args, "hang": True}
            out = re.sub(r"\x1b\[[0-9;]*m", "", out)   # colour codes of the log lines
            return {"cfg": cfg, "args": args, "file": os.path.basename(path), "exit": rc,
                    "prints": any(l.startswith("> ") for l in out.splitlines()),
                    "spawned": any(re.match(r"Spawning \d+ process", l) for l in out.splitlines()),
                    "diag": sum(1 for l in err.splitlines() if re.match(r"\d{4}/\d\d/\d\d \d\d:\d\d:\d\d ", l)),
                    "panic": ("goroutine " in err and ("panic:" in err or "fatal error:" in err)),
                    "stderr": err[:600], "stdout_head": out[:300]}

        with concurrent.futures.ThreadPoolExecutor(max_workers=vlib.NCPU) as ex:
            obs = list(ex.map(run, cfgs))
        judged = []
        for o in obs:
            if o.get("hang"):
                v.violation("grits %s does not terminate" % " ".join(o["args"]), o, {"kind": "hang"})
                continue
            c = o["cfg"]
            tcres = (not c["ntc"]) and c["tc"] != "false"
            if o["panic"]:
                sig = {"kind": "panic", "typecheck_disabled": not tcres, "class": c["class"] if c["class"] != "illtyped_any" else "illtyped_panics"}
                v.violation("grits %s dies with a Go panic trace: %s" % (" ".join(o["args"]), o["stderr"][:200]), o, sig)
                if not (sig["typecheck_disabled"] and sig["class"] == "illtyped_panics"):
                    continue
            judged.append(o)
        # conformance of every observation with the terminal state of Cli.tla
        # (illtyped_any: the run-time behaviour of an arbitrary ill-typed program is unknown; only invocations that never reach execution are judged)
        def reaches_exec(c):
            tcres = (not c["ntc"]) and c["tc"] != "false"
            exres = (not c["nex"]) and c["ex"] != "false"
            return c["nargs"] == 1 and not tcres and exres
        conf = [o for o in judged if not (o["cfg"]["class"] == "illtyped_any" and reaches_exec(o["cfg"]))]
        # an ill-typed program that is run without typechecking errs at run time - unless the interpreter declares quiescence first (its 50 ms heartbeat
        # on a loaded machine): an execution of that class that ended without the error is not an observation of the class, and is not judged
        not_judged = [o for o in conf if o["cfg"]["class"] == "illtyped_panics" and reaches_exec(o["cfg"]) and not o["panic"]]
        conf = [o for o in conf if o not in not_judged]
        if not_judged:
            v.notes.append("%d executions of an erring program without typechecking ended before the error showed (not judged)" % len(not_judged))
        for o in conf:
            if o["cfg"]["class"] == "illtyped_any":
                o["cfg"] = dict(o["cfg"], **{"class": "illtyped_stuck"})
        rejected, accepted, cstates = [], 0, 0
        todo = list(conf)
        while todo:
            tp = work.path("cli_obs_%d.json" % len(todo))
            json.dump([{k: o[k] for k in ("cfg", "exit", "prints", "spawned", "diag", "panic")} for o in todo], open(tp, "w"))
            r = vlib.tlc("Cli", CLI_CONF_CFG, env={"VERIF_TRACES": tp}, workers=4, timeout=600, work=work)
            cstates += r["distinct"]
            if r["ok"]:
                accepted += len(todo)
                todo = []
            elif r["violated"]:
                mm = re.findall(r"^/\\ oi = (\d+)", r["out"], re.M)
                oi = int(mm[-1]) if mm else 1
                bad = todo[oi - 1]
                rejected.append((bad, r["violated"]))
                todo = todo[:oi - 1] + todo[oi:]
            else:
                v.harness_errors.append("Cli conformance run failed: " + (r["error_text"] or "timeout")[:600])
                todo = []
        for bad, inv in rejected:
            v.violation("grits %s (file class %s): exit=%s output=%s spawned=%s diagnostics=%s contradicts Cli.tla (%s)" %
                        (" ".join(bad["args"]), bad["cfg"]["class"], bad["exit"], bad["prints"], bad["spawned"], bad["diag"], inv), bad,
                        {"kind": "gatekeeping", "inv": inv})
        # binding self-test: a flipped exit status must be rejected
        st = {"ran": False}
        good = [o for o in conf if o not in [b for b, _ in rejected]]
        if good:
            o = dict(good[0]); o = {k: o[k] for k in ("cfg", "exit", "prints", "spawned", "diag", "panic")}
            o["exit"] = 1 - o["exit"] if o["exit"] in (0, 1) else 0
            tp = work.path("cli_self.json")
            json.dump([o], open(tp, "w"))
            r = vlib.tlc("Cli", CLI_CONF_CFG, env={"VERIF_TRACES": tp}, workers=1, timeout=120, work=work)
            st = {"ran": True, "corrupt_exit": "rejected" if r["violated"] else "accepted", "ok": bool(r["violated"])}
            if not st["ok"]:
                v.harness_errors.append("Cli conformance self-test: a flipped exit status was accepted")
        cov = {"states": max(1, m["distinct"] + cstates), "transitions": max(1, m["generated"] + cstates),
               "traces_validated_against_impl": accepted,
               "samples": [{k: o.get(k) for k in ("args", "file", "exit", "prints", "spawned", "diag", "panic")} for o in obs[:4] + obs[-2:]],
               "model_configurations": 15120 if m["ok"] else 0, "model_ok": m["ok"], "invocations": len(obs), "invocations_conforming": accepted,
               "invocations_rejected": len(rejected), "panics_observed": sum(1 for o in obs if o.get("panic")),
               "classes": {c: len(files[c]) for c in files}, "selftest": st,
               "switch_combinations_covered": len({(o["cfg"]["tc"], o["cfg"]["ntc"], o["cfg"]["ex"], o["cfg"]["nex"], o["cfg"]["sync"], o["cfg"]["async"]) for o in obs})}
        vlib.write_evidence("C18", "model_checking", cov, time.time() - t0, len(v.violations),
                            ["program files: a fixed pool per class (thorough: plus generated derivations and mutants); the class of a file is assigned by construction",
                             "observables: exit status, 'Spawning' line, '> ' lines, log.Fatal lines on stderr, Go panic trace on stderr"])
    return v.finish()


CHECKS["C18"] = c18


# ----------------------------------------------------------------------------- C19
HOST_MODEL_CFG = """SPECIFICATION Spec
CONSTANTS
  Mode = "model"
  Allowed = {%s}
  MaxLen = %d
INVARIANTS Isolation FreshObjects OutcomeIsFunctionOfProgram HostSurvives
CHECK_DEADLOCK FALSE
"""
HOST_CONF_CFG = """SPECIFICATION Spec
CONSTANTS
  Mode = "conform"
  Allowed = {}
  MaxLen = 0
INVARIANTS HistoryOK
CHECK_DEADLOCK FALSE
"""

HOST_POOL = [
    # (id, text, mode, typecheck)
    ("ok_a", "type T = 1\nlet f() : T = print fa; close self\nprc[a] : T = f()\nprc[m] : 1 = wait a; print done_a; close self\n", "async", True),
    ("ok_b_same_names", "type T = 1 * 1\nlet f() : T = x : 1 <- new close self; y : 1 <- new close self; print fb; send self<x, y>\nprc[a] : T = f()\nprc[m] : 1 = <u, v> <- recv a; wait u; wait v; print done_b; close self\n", "async", True),
    ("ok_sync_parks", "prc[a] : 1 = print pa; close self\nprc[b] : 1 = print pb; close self\n", "sync", True),
    ("ok_np", "type N = +{z : 1, s : N}\nlet two() : N = a : 1 <- new close self; b : N <- new self.z<a>; self.s<b>\nlet eat(n : N) : 1 = case n ( z<c> => print z; wait c; close self | s<c> => print s; eat(c) )\nprc[m] : 1 = n <- new two(); eat(n)\n", "np", True),
    ("ok_split", "prc[s] : 1 -* 1 = print before; <x, y> <- recv self; print after; wait x; close y\nprc[m] : 1 = <s1, s2> <- split s; u : 1 <- new close self; v : 1 <- new close self; r1 : 1 <- new send s1<u, self>; r2 : 1 <- new send s2<v, self>; wait r1; wait r2; print fin; close self\n", "async", True),
    ("rej_type", "prc[a] : 1 = wait b; close self\nprc[b] : 1 -* 1 = <x, y> <- recv self; wait x; close y\n", "async", True),
    ("rej_defs", "type A = B\ntype A = A\nlet f(b : A) : A = fwd self b\n", "async", True),
    ("rej_undefined", "type A = B\nlet f(b : A) : A = fwd self b\nprc[a] : A = f(b)\nprc[b] : A = close self\n", "async", True),
    ("rej_internal", "type A = &{l : B}\ntype B = 1\nlet f(x : A) : B = x.l<+self>\n", "async", True),
    ("rej_linear", "let f(x : lin 1, y : lin 1) : lin 1 = wait x; close self\n", "async", True),
    ("bad_syntax", "prc[a : 1 = close\n", "async", True),
    ("bad_comment", "type A = 1 /* never closed\nprc[a] : A = close self\n", "async", True),
    ("bad_char", "prc[a] : 1 = close self\n@\nprc[b] : 1 = close self\n", "async", True),
    ("untyped_stuck", "prc[a] : 1 = print hi; wait b; close self\nprc[b] : 1 -* 1 = <x,y> <- recv self; close self\n", "async", False),
    # families that re-use the same type / function / process names with different meanings and different verdicts
    ("eq_ok", "type A = +{a : 1}\ntype B = +{a : 1}\nlet f(x : A) : B = fwd self x\nprc[p] : B = y : 1 <- new close self; z : A <- new self.a<y>; f(z)\nprc[m] : 1 = case p ( a<c> => wait c; print eq_ok; close self )\n", "async", True),
    ("eq_bad", "type A = +{a : 1}\ntype B = +{b : 1}\nlet f(x : A) : B = fwd self x\nprc[p] : B = y : 1 <- new close self; z : A <- new self.a<y>; f(z)\nprc[m] : 1 = case p ( b<c> => wait c; print eq_bad; close self )\n", "async", True),
    ("rec_ok", "type A = +{z : 1, s : A}\ntype B = +{z : 1, s : B}\nlet f(x : A) : B = fwd self x\n", "async", True),
    ("rec_bad", "type A = +{z : 1, s : A}\ntype B = +{z : 1, s : +{z : 1}}\nlet f(x : A) : B = fwd self x\n", "async", True),
    ("rec_bad2", "type A = +{z : 1, s : B}\ntype B = +{s : A}\nlet f(x : A) : B = fwd self x\n", "async", True),
    ("fun_ok", "type T = lin 1\nlet g(x : T) : T = wait x; close self\nprc[p] : T = y : T <- new close self; g(y)\nprc[m] : lin 1 = wait p; print fun_ok; close self\n", "sync", True),
    ("fun_bad", "type T = lin 1 * 1\nlet g(x : T) : lin 1 = wait x; close self\nprc[p] : lin 1 = y : lin 1 <- new close self; g(y)\n", "sync", True),
    ("mode_ok", "type T = aff 1\nlet g(x : T) : aff 1 = drop x; close self\n", "async", True),
    ("mode_bad", "type T = lin 1\nlet g(x : T) : lin 1 = drop x; close self\n", "async", True),
    ("ok_same_proc_names", "prc[a] : 1 = print other_a; close self\nprc[m] : 1 = wait a; print other_m; close self\n", "sync", True),
    # the same type NAME with opposite polarities, used where the interpreter looks the polarity of a named type up at run time (a dropped channel,
    # a free name of a duplicated process): nothing learnt about B in one run may be used in the next
    ("pol_pos", "type B = aff 1\nlet mk() : B = print mkpos; close self\nprc[m] : lin 1 = y <- new mk(); drop y; print pos_done; close self\n", "async", True),
    ("pol_neg", "type B = rep &{ping : 1}\nlet srv() : B = case self ( ping<c> => print pong; close c )\n"
                "let client(y : B) : rep 1 = z : rep 1 <- new y.ping<self>; wait z; print done; close self\n"
                "prc[y] : B = srv()\nprc[a, b] : rep 1 = client(y)\nprc[m] : rep 1 = wait a; wait b; print fin; close self\n", "async", True),
    ("pol_negdrop", "type B = aff &{ping : 1}\nlet srv() : B = case self ( ping<c> => print pong; close c )\n"
                    "prc[m] : lin 1 = y <- new srv(); drop y; print dropped; close self\n", "async", True),
    ("pol_possync", "type B = rep 1\nlet mk() : B = print mk; close self\nlet use(y : B) : rep 1 = wait y; print used; close self\n"
                    "prc[y] : B = mk()\nprc[a, b] : rep 1 = use(y)\nprc[m] : rep 1 = wait a; wait b; print fin; close self\n", "sync", True),
]


def _host_job(pid, k, trace=True):
    i, text, mode, tc = next(p for p in HOST_POOL if p[0] == pid)
    return {"id": "%s#%d" % (pid, k), "text": text, "mode": mode, "typecheck": tc, "execute": True, "monitor": False, "gomaxprocs": 16, "seed": 1,
            "yield": 0.0, "trace": trace, "dump": False, "max_ms": 8000, "max_events": 20000, "grace_ms": 40 if tc else 0}


def _host_obs(r):
    if r.get("crash"):
        return {"parse": "", "tc": "", "prints": [], "crash": True}
    return {"parse": r.get("parse") or "", "tc": r.get("tc") or "", "prints": sorted(r.get("prints") or []), "crash": False}


def c19():
    import rt
    t0 = time.time()
    v = vlib.Verdict("C19")
    vlib.build(("vdrive",))
    tier, seed = vlib.tier(), vlib.seed()
    rng = random.Random(seed * 17 + 3)
    binary = os.path.join(vlib.BUILD, "vdrive")
    os.makedirs(vlib.WORKROOT, exist_ok=True)
    with vlib.Work("c19") as work:
        m0 = vlib.tlc("Host", HOST_MODEL_CFG % ("", 4 if tier == "quick" else 5), workers=4, timeout=600, work=work, env={"VERIF_TRACES": "/dev/null"})
        if not m0["ok"]:
            v.harness_errors.append("Host.tla (no deviation allowed) violates its own properties: %s" % (m0["violated"] or m0["error_text"]))
        dev = {}
        if tier == "thorough":
            for d in ('"F14"', '"SharedTable"'):
                md = vlib.tlc("Host", HOST_MODEL_CFG % (d, 3), workers=4, timeout=300, work=work, env={"VERIF_TRACES": "/dev/null"})
                dev[d] = md["violated"]
                if md["ok"]:
                    v.harness_errors.append("Host.tla does not discriminate the deviation %s" % d)
        # outcomes alone (fresh process each; twice, to know that the outcome is stable)
        alone, unstable = {}, []
        for pid, _, _, _ in HOST_POOL:
            obs = []
            for k in range(3):
                r = vlib._run_batch(binary, [_host_job(pid, k)], 30)["%s#%d" % (pid, k)]
                ev = r.get("events") or []
                if r.get("late") or (ev and rt.premature_quiescence(ev, _host_job(pid, 0)["mode"])):
                    continue
                obs.append(_host_obs(r))
            if not obs or any(o != obs[0] for o in obs):
                unstable.append(pid)
            else:
                alone[pid] = obs[0]
        for pid in unstable:
            v.notes.append("outcome of %s alone is not stable on this machine: not used in histories" % pid)
        pool = [p[0] for p in HOST_POOL if p[0] in alone]
        nh, maxlen = (36, 6) if tier == "quick" else (400, 9)
        hists = []
        for k in range(nh):
            L = rng.randint(2, maxlen)
            hists.append([rng.choice(pool) for _ in range(L)])
        # directed: every ordered pair (a then b); quick: the pairs inside the same-name families and a sample of the rest
        pairs = [[a, b] for a in pool for b in pool]
        if tier == "thorough":
            hists += pairs + [[a, b, a] for a, b in pairs if a != b][:200]
        else:
            fam = lambda x: x.split("_")[0]
            hists += [p for p in pairs if fam(p[0]) == fam(p[1]) and p[0] != p[1]] + [[a, b, a] for a, b in pairs if fam(a) == fam(b) and a != b][:30]
            rng.shuffle(pairs)
            hists += pairs[:40]

        # every history is run twice: with a fresh RuntimeEnvironment per job, and with ONE environment re-used by all its jobs
        hists = hists + [h + ["@reuse"] for h in hists]

        def run_hist(h):
            reuse = h[-1] == "@reuse"
            h = [x for x in h if x != "@reuse"]
            for attempt in range(3):
                jobs = [dict(_host_job(pid, i), reuse_env=reuse and i > 0) for i, pid in enumerate(h)]
                res = vlib._run_batch(binary, jobs, 30)
                out, suspicious = [], False
                for j, pid in zip(jobs, h):
                    r = res[j["id"]]
                    o = _host_obs(r)
                    ev = r.get("events") or []
                    if o != alone[pid] and (r.get("late") or r.get("hang") or (ev and rt.premature_quiescence(ev, j["mode"]))):
                        suspicious = True
                    out.append({"prog": pid, "obs": o})
                if not suspicious:
                    return out
            return None      # every attempt was cut short by the heartbeat time-out (machine load): the history is not judged

        import concurrent.futures
        with concurrent.futures.ThreadPoolExecutor(max_workers=8) as ex:
            observed_all = list(ex.map(run_hist, hists))
        not_judged = sum(1 for o in observed_all if o is None)
        hists = [h for h, o in zip(hists, observed_all) if o is not None]
        observed = [o for o in observed_all if o is not None]
        if not_judged:
            v.notes.append("%d histories were not judged (every attempt cut short by the heartbeat time-out)" % not_judged)
        data = {"alone": alone, "histories": observed}
        tp = work.path("host_obs.json")
        json.dump(data, open(tp, "w"))
        r = vlib.tlc("Host", HOST_CONF_CFG, env={"VERIF_TRACES": tp}, workers=1, timeout=600, work=work, extra=("-continue",))
        bad = []
        if r["violated"] == "HistoryOK":
            bad = sorted({int(x) for x in re.findall(r"^/\\ hi = (\d+)", r["out"], re.M)})
        elif not r["ok"]:
            v.harness_errors.append("Host conformance run failed: %s" % (r["violated"] or r["error_text"]))
        for hi in bad:
            h = observed[hi - 1]
            first = next((i for i, e in enumerate(h) if e["obs"] != alone[e["prog"]]), 0)
            e = h[first]
            how = " (all jobs on ONE re-used RuntimeEnvironment)" if hists[hi - 1][-1] == "@reuse" else ""
            v.violation("history %s%s: run %d (%s) gives %s, alone it gives %s" % ([x["prog"] for x in h], how, first + 1, e["prog"], json.dumps(e["obs"])[:200], json.dumps(alone[e["prog"]])[:200]),
                        {"history": [x["prog"] for x in h], "programs": {p[0]: {"text": p[1], "mode": p[2], "typecheck": p[3]} for p in HOST_POOL if p[0] in {x["prog"] for x in h}},
                         "observed": h, "alone": {x["prog"]: alone[x["prog"]] for x in h}},
                        {"kind": "history", "crash": e["obs"]["crash"]})
        # binding self-test: a history with one altered outcome must be rejected
        st = {"ran": False}
        if observed:
            fake = json.loads(json.dumps(observed[0]))
            fake[-1]["obs"]["prints"] = fake[-1]["obs"]["prints"] + ["__leaked__"]
            tp2 = work.path("host_self.json")
            json.dump({"alone": alone, "histories": [fake]}, open(tp2, "w"))
            r2 = vlib.tlc("Host", HOST_CONF_CFG, env={"VERIF_TRACES": tp2}, workers=1, timeout=120, work=work)
            st = {"ran": True, "altered_outcome": "rejected" if r2["violated"] == "HistoryOK" else "accepted", "ok": r2["violated"] == "HistoryOK"}
            if not st["ok"]:
                v.harness_errors.append("Host conformance self-test: an altered outcome was accepted")
        cov = {"states": max(1, m0["distinct"] + r["distinct"]), "transitions": max(1, m0["generated"] + r["generated"]),
               "traces_validated_against_impl": len(observed) - len(bad),
               "samples": [{"history": [x["prog"] for x in observed[0]], "observed": observed[0]}] if observed else [],
               "model": {"ok": m0["ok"], "distinct": m0["distinct"], "max_history": 4 if tier == "quick" else 5, "deviations_rejected": dev},
               "pool": pool, "pool_unstable": unstable, "histories": len(observed), "runs_in_histories": sum(len(h) for h in observed),
               "histories_rejected": len(bad), "selftest": st}
        vlib.write_evidence("C19", "model_checking", cov, time.time() - t0, len(v.violations),
                            ["a history is the sequence of jobs one driver process executes (parse, typecheck, run, in the three execution modes, with and without typechecking)",
                             "the outcome of a run = parse result, typecheck result (error text included), printed multiset, host alive; the outcome alone is measured three times in fresh processes",
                             "a mismatch in a run whose heartbeat timed out early is re-run (up to 3 times) before it is reported"])
    return v.finish()


CHECKS["C19"] = c19


# ----------------------------------------------------------------------------- C13
UNTYPED_ERRING = [
    # several forwards without polarity information (no types, no marks): each of them is a run-time error of its own process
    "prc[a] = fwd self b\nprc[b] = fwd self c\nprc[c] = fwd self d\nprc[d] = close self\n",
    "prc[m] = x <- new (fwd self a); y <- new (fwd self b); z <- new (fwd self c); wait x; wait y; wait z; close self\nprc[a] = close self\nprc[b] = close self\nprc[c] = close self\n",
    # several clients that receive a message of the wrong kind
    "prc[a] = wait b; close self\nprc[c] = wait d; close self\nprc[e] = wait f; close self\n"
    "prc[b] = u <- new close self; v <- new close self; send self<u, v>\nprc[d] = u <- new close self; v <- new close self; send self<u, v>\n"
    "prc[f] = u <- new close self; v <- new close self; send self<u, v>\n",
]


def c13():
    """data races.  Decided in three layers:
    (1) GritsRT.tla: invariant NoSharedTree on every interleaving of the small programs (the design: CALL / DUP copy, CUT moves a sub-tree);
    (2) the code is bound to it: every hook trace lists the identities of the Form nodes of each process body; GritsRTTrace.tla maps each real
        node to the tree node <<instance, n>> of the model (NoSharedNode: no real node under two names) and Own.tla checks, for all three
        execution versions, that no node is held by two live processes at once (Exclusive);
    (3) what is below the level of TLA+ actions (counters, monitor, the runtime's own bookkeeping) is observed by the race-detector build of
        the driver over the same programs and configurations; every report is a violation unless it is a listed finding."""
    import rt, glob as _glob
    t0 = time.time()
    v = vlib.Verdict("C13")
    tier, seed = vlib.tier(), vlib.seed()
    c = rt.campaign()
    text = {p["name"]: p["text"] for p in c["progs"]}
    # (1) model level
    exh = c["exhaustive"]
    for name, pp in exh["per_prog"].items():
        if pp.get("violated") == "NoSharedTree":
            v.harness_errors.append("GritsRT: NoSharedTree fails for %s - the specification's own ownership discipline is broken" % name)
    # (2) binding
    val, own = c["validation"], c["ownership"]
    for r in val["rejected"]:
        if "NoSharedNode" in r.get("why", "") or "NoSharedTree" in r.get("why", ""):
            prog = r["id"].split("|")[0]
            v.violation("run %s: a Form node of the real interpreter is owned under two names of the specification (%s at event %s): a process body is shared "
                        "where CALL / DUP must copy and CUT must move" % (r["id"], r["why"], r["at"]),
                        {"program": text.get(prog), "run": r["id"], "event": r.get("event")}, {"kind": "shared-node", "program": prog})
    for cl in own["clashes"]:
        prog = cl["id"].split("|")[0]
        v.violation("run %s: a Form node is held by two live processes at once (event %s, node/holder %s)" % (cl["id"], cl["at"], cl["clash"]),
                    {"program": text.get(prog), "run": cl["id"], "clash": cl}, {"kind": "shared-node", "program": prog})
    for e in own["errors"]:
        v.harness_errors.append("Own.tla: " + e)
    st = own.get("selftest") or {}
    if st.get("ran") and not st.get("ok"):
        v.harness_errors.append("ownership binding self-test failed: " + json.dumps(st))
    # (3) race detector
    vlib.build(("vdrive", "vblack-race"))   # race build WITHOUT the hooks: the tracer global would itself be reported
    with vlib.Work("c13") as work:
        progs = rt.fixed_corpus() + rt.pgen_programs(tier, seed)[:: (3 if tier == "quick" else 1)]
        rt.frontend(progs)
        run = [p for p in progs if p["runnable"]]
        cfgs = []
        # monitor: 0 = none, 1 = monitor attached, 2 = monitor with a subscriber whose consumers serialise every published snapshot (the web front end's set-up)
        for mode in ("async", "sync", "np"):
            for mon in (0, 1, 2):
                cfgs.append((mode, 16, mon, 0.0, seed))
                if tier == "thorough" or mode == "async":
                    cfgs.append((mode, 4, mon, 0.3, seed + 1))
        jobs = []
        # programs run WITHOUT typechecking that reach run-time errors in several processes at once (the property speaks of any program)
        for k, text in enumerate(UNTYPED_ERRING):
            for mode in ("async", "sync", "np"):
                for rep_ in range(3):
                    jobs.append({"id": "untyped%d|%s|16|0|%d" % (k, mode, rep_), "text": text, "mode": mode, "typecheck": False, "execute": True, "monitor": False,
                                 "subscriber": False, "gomaxprocs": 16, "seed": seed + rep_, "yield": 0.0, "trace": False, "dump": False, "max_ms": 6000, "max_events": 1000,
                                 "post_calls": True})
        for p in run:
            for (mode, gmp, mon, yld, rs) in cfgs:
                jobs.append({"id": "%s|%s|%d|%d|%.1f" % (p["name"], mode, gmp, int(mon), yld), "text": p["text"], "mode": mode, "typecheck": True, "execute": True,
                             "monitor": mon > 0, "subscriber": mon == 2, "gomaxprocs": gmp, "seed": rs, "yield": yld, "trace": yld > 0, "dump": False, "max_ms": 12000,
                             "max_events": 30000, "post_calls": True})
        logdir = work.path("race")
        os.makedirs(logdir)
        res = vlib.run_jobs(os.path.join(vlib.BUILD, "vblack-race"), jobs, batch=6, timeout=60, parallel=max(2, vlib.NCPU // 2),
                            extra_env={"GORACE": "log_path=%s/r halt_on_error=0 history_size=2" % logdir})
        reports, harness_induced = [], []
        for f in sorted(_glob.glob(os.path.join(logdir, "r.*"))):
            txt = open(f, errors="replace").read()
            for blk in txt.split("WARNING: DATA RACE")[1:]:
                blk = blk.split("==================")[0]
                heads = []
                parts = re.split(r"\n(?=Previous |Goroutine )", blk)[:2]
                for part in parts:
                    m = re.search(r"^\s+(grits/[\w/.()*]+)\(", part, re.M)
                    if m:
                        heads.append(m.group(1))
                if not heads:
                    # neither access is inside a function of gertab/Grits: the driver's own business (it is written to be race free; reported as a note)
                    harness_induced.append(blk[:600])
                    continue
                if len(heads) < len(parts):
                    # the other access is made by the driver (e.g. a subscriber's consumer reading a snapshot the monitor published and keeps writing to)
                    heads.append("(consumer of the public API)")
                reports.append({"heads": sorted(set(heads)), "text": blk[:1800]})
        seen = {}
        for rp in reports:
            seen.setdefault(tuple(rp["heads"]), rp)
        for heads, rp in seen.items():
            v.violation("data race between %s" % (" and ".join(heads) or "(unknown frames)"), {"report": rp["text"], "heads": list(heads)},
                        {"kind": "race", "heads": list(heads), "np_close": any("closeProvidersNP" in h for h in heads),
                         "debug_counters": all(any(k in h for k in ("CreateFreshChannel", "ProcessCount", "DeadProcessCount", "SpawnThenTransition", "terminate")) for h in heads)})
        for h in harness_induced[:2]:
            v.notes.append("race report without any frame of gertab/Grits (not judged): " + h)
        crashes = [(j["id"], res[j["id"]]) for j in jobs if res[j["id"]].get("crash")]
        for jid, r in crashes[:3]:
            v.notes.append("race-build run %s crashed (C01's concern): %s" % (jid, r["crash"][:200]))
        cov = {"states": max(1, exh["distinct"]), "transitions": max(1, exh["generated"]),
               "traces_validated_against_impl": own["traces"] - len(own["clashes"]),
               "evaluations": len(jobs), "distinct_nontrivial": len({j["id"].split("|")[0] for j in jobs}),
               "rule": "model: states of GritsRT.tla explored with invariant NoSharedTree; binding: recorded runs whose node identities were validated by Own.tla (all three "
                       "execution versions) and by GritsRTTrace.tla's NoSharedNode (polarized versions); one evaluation = one run of an accepted closed program under the "
                       "race detector in one configuration (mode x monitor x cores x yield injection) followed by the post-run API calls",
               "samples": [{"job": jobs[0]["id"], "program": jobs[0]["text"][:400]}] if jobs else [],
               "model_programs_exhaustive": len(c["small"]), "model_invariant": "NoSharedTree", "exhaustive_completed": bool(exh["ok"]),
               "ownership_traces": own["traces"], "ownership_events": own["events"], "ownership_traces_by_mode": own.get("by_mode"),
               "ownership_clashes": len(own["clashes"]), "ownership_selftest": own.get("selftest"),
               "polarized_traces_node_mapped": val["accepted"], "node_identities_logged_per_event_max": 96,
               "race_reports": len(reports), "distinct_race_sites": len(seen), "configurations": [list(c_) for c_ in cfgs], "programs": len(run),
               "runs_crashed": len(crashes)}
        vlib.write_evidence("C13", "model_checking", cov, time.time() - t0, len(v.violations),
                            ["the TLA+ part decides the ownership discipline of process bodies (the mechanism the property is anchored in): model-checked in GritsRT.tla, and bound "
                             "to the code through logged node identities (at most 96 per event: a preorder prefix of larger bodies)",
                             "accesses below the abstraction level of TLA+ actions (debug counters, monitor, Go runtime structures) are observed by the race detector only, and only "
                             "on accesses that actually happen in a run (dynamic analysis)"])
    return v.finish()


CHECKS["C13"] = c13
