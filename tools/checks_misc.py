"""C09 (typechecking is total): TcProto.tla model-checked, every hook log of the real Typecheck validated by
TcProtoTrace.tla, crash / hang / late-crash observation of a large family of parseable inputs."""
import json, os, re, time, glob, random, collections
import vlib

TC_CFG = """SPECIFICATION Spec
CONSTANTS Variant = "%s"
INVARIANTS NilOnlyIfAllOk ErrOnlyIfBad HostAlive OneResult NoPhaseAfterFailure
PROPERTIES NoWorkAfterReturn Returns WorkerFinishes
CHECK_DEADLOCK FALSE
"""
TCTRACE_CFG = """SPECIFICATION TraceSpec
CONSTANTS Variant = "intended"
INVARIANTS NotAllAccepted NilOnlyIfAllOk ErrOnlyIfBad HostAlive OneResult NoPhaseAfterFailure
POSTCONDITION HighWater
CHECK_DEADLOCK FALSE
"""

IDENT = re.compile(r"[A-Za-z_][A-Za-z0-9_']*")
KEYWORDS = {"send", "recv", "receive", "case", "close", "wait", "fwd", "forward", "split", "drop", "new", "shift", "cast", "print", "self",
            "let", "prc", "type", "assuming", "in", "exec", "lin", "aff", "mul", "rep", "linear", "affine", "multicast", "replicable", "of", "end"}


def nonsense(texts, rng, n):
    """programs that (mostly) still parse but are nonsense: undefined / swapped / duplicated names, missing annotations,
    explicit polarity marks, alias cycles, wrong modes"""
    out = []
    tails = ["type Z1 = Z2\ntype Z2 = Z1\n", "type Z3 = Z3\n", "type Z4 = lin (aff /\\ lin 1)\n", "let zf(x : Zundef) : 1 = wait x; close self\n",
             "prc[zq] : 1 = zg(zq)\n", "type Z5 = +{a : 1, a : 1}\n", "let zh(x : lin 1) : rep 1 = wait x; close self\n", "prc[zr, zr] : 1 = close self\n"]
    for i in range(n):
        t = rng.choice(texts)
        lines = t.split("\n")
        for _ in range(rng.randint(1, 3)):
            op = rng.randrange(9)
            ids = [m for m in IDENT.finditer(t) if m.group(0) not in KEYWORDS]
            if op == 0 and ids:      # replace an identifier occurrence by another one (or an undefined one)
                m = rng.choice(ids)
                other = rng.choice([x.group(0) for x in ids] + ["zz", "self"])
                t = t[:m.start()] + other + t[m.end():]
            elif op == 1:            # drop a cut annotation
                t = re.sub(r" : [^;=<]*? <- new", " <- new", t, count=1)
            elif op == 2 and lines:  # duplicate a declaration
                l = rng.choice([x for x in lines if x.strip()] or [""])
                t = t + "\n" + l + "\n"
            elif op == 3 and lines:  # delete a declaration
                k = rng.randrange(len(lines))
                t = "\n".join(lines[:k] + lines[k + 1:])
            elif op == 4 and ids:    # explicit polarity mark
                m = rng.choice(ids)
                t = t[:m.start()] + rng.choice("+-") + t[m.start():]
            elif op == 5:            # change a mode word
                ms = list(re.finditer(r"\b(lin|aff|mul|rep)\b", t))
                if ms:
                    m = rng.choice(ms)
                    t = t[:m.start()] + rng.choice(["lin", "aff", "mul", "rep"]) + t[m.end():]
            elif op == 6:
                t = t + "\n" + rng.choice(tails)
            elif op == 7:            # swap two type names / labels
                if len(ids) >= 2:
                    a, b = rng.sample(ids, 2)
                    if a.start() > b.start():
                        a, b = b, a
                    t = t[:a.start()] + b.group(0) + t[a.end():b.start()] + a.group(0) + t[b.end():]
            else:                    # turn 1 into a named type / a named type into 1
                ms = list(re.finditer(r"\b1\b", t))
                if ms:
                    m = rng.choice(ms)
                    t = t[:m.start()] + rng.choice(["Z1", "zz", "(1 * 1)"]) + t[m.end():]
            lines = t.split("\n")
        out.append({"name": "nonsense/%d" % i, "text": t, "src": "nonsense"})
    return out


def tc_inputs(work):
    import gen
    tier, seed = vlib.tier(), vlib.seed()
    rng = random.Random(seed * 7919 + 13)
    progs, stats = gen.generate(tier, seed, work)
    inputs = [{"name": p["name"], "text": p["text"], "src": "Gen.tla" + ("/mutant" if p["mut"] else "")} for p in progs]
    for f in sorted(glob.glob(os.path.join(vlib.VERIF, "corpus", "tc", "*.grits")) + glob.glob(os.path.join(vlib.VERIF, "corpus", "typing", "*.grits"))
                    + glob.glob(os.path.join(vlib.VERIF, "corpus", "rt", "*.grits"))
                    + glob.glob(os.path.join(vlib.REPO, "examples", "*.grits")) + glob.glob(os.path.join(vlib.REPO, "examples", "others", "*.grits"))):
        inputs.append({"name": "file/" + os.path.basename(f), "text": open(f).read(), "src": "corpus"})
    base = [p["text"] for p in inputs if len(p["text"]) < 4000]
    inputs += nonsense(base, rng, 600 if tier == "quick" else 6000)
    return inputs, stats


def c09():
    t0 = time.time()
    v = vlib.Verdict("C09")
    vlib.build(("vdrive",))
    tier = vlib.tier()
    with vlib.Work("c09") as work:
        # 1. the protocol, model-checked (safety + liveness, every plan of phase outcomes, every interleaving)
        m_int = vlib.tlc("TcProto", TC_CFG % "intended", workers=4, timeout=300, work=work)
        if not m_int["ok"]:
            v.harness_errors.append("TcProto (intended protocol) does not satisfy its own properties: %s" % (m_int["violated"] or m_int["error_text"]))
        m_aw = None
        if tier == "thorough":
            # the specification must tell the two protocols apart: the pinned commit's protocol violates the properties
            m_aw = vlib.tlc("TcProto", TC_CFG % "aswritten", workers=4, timeout=300, work=work)
            if m_aw["ok"]:
                v.harness_errors.append("TcProto accepts the as-written protocol: the properties do not discriminate")
        # 2. the real typechecker on everything
        inputs, gstats = tc_inputs(work)
        jobs = []
        for k, p in enumerate(inputs):
            grace = 1500 if (p["name"].startswith("file/f") or k % 97 == 0) else 30
            jobs.append({"id": p["name"], "text": p["text"], "mode": "async", "typecheck": True, "execute": False, "dump": False, "grace_ms": grace})
        res = vlib.run_jobs(os.path.join(vlib.BUILD, "vdrive"), jobs, batch=12, timeout=20)
        logs = collections.OrderedDict()
        verdicts = collections.Counter()
        parsed = 0
        for p in inputs:
            r = res[p["name"]]
            if r.get("crash"):
                sig = {"kind": "crash", "polarity_on_named_type": "unfold type before checking for polarity" in r["crash"]}
                v.violation("typechecking %s kills the host: %s" % (p["name"], r["crash"][:300]), {"program": p["text"], "crash": r["crash"]}, sig)
                verdicts["crash"] += 1
                continue
            if r.get("hang"):
                v.violation("typechecking %s did not return within the time limit" % p["name"], {"program": p["text"]}, {"kind": "hang"})
                verdicts["hang"] += 1
                continue
            if r.get("parse") != "ok":
                verdicts["unparseable"] += 1
                continue
            parsed += 1
            tc = r.get("tc") or ""
            ev = r.get("tc_events") or []
            verdicts["accept" if tc == "ok" else "reject"] += 1
            if "internal error while typechecking" in tc or "panic" in ev:
                sig = {"kind": "internal-panic", "polarity_on_named_type": "unfold type before checking for polarity" in tc}
                v.violation("typechecking %s panics internally (%s)" % (p["name"], tc[:200]), {"program": p["text"], "result": tc, "events": ev}, sig)
            if tc == "ok" and ("err" in ev or "panic" in ev):
                v.violation("Typecheck reported success for %s although a phase failed: %s" % (p["name"], ev), {"program": p["text"], "events": ev},
                            {"kind": "success-after-failure"})
            want_ret = "ret-nil" if tc == "ok" else "ret-err"
            if ev and ev[-1] != want_ret and want_ret not in ev:
                v.notes.append("%s: returned %r but the hook log is %s" % (p["name"], tc[:60], ev))
            logs.setdefault(tuple(ev), []).append(p["name"])
        # 3. every distinct hook log must be a complete behaviour of the intended protocol
        keys = [k for k in logs if k]
        accepted_logs, rejected_logs = 0, []
        todo = list(keys)
        tstates = 0
        while todo:
            tp = work.path("tclogs_%d.json" % len(todo))
            json.dump([{"log": list(k)} for k in todo], open(tp, "w"))
            r = vlib.tlc("TcProtoTrace", TCTRACE_CFG, env={"VERIF_TRACES": tp}, workers=1, timeout=300, work=work)
            tstates += r["distinct"]
            if r["violated"] == "NotAllAccepted":
                accepted_logs += len(todo)
                todo = []
            elif r["ok"] or r["violated"]:
                m = re.search(r'"TCHW", (\d+)', r["out"])
                ti = int(m.group(1)) if m else 1
                if r["violated"]:
                    mm = re.findall(r"^/\\ ti = (\d+)", r["out"], re.M)
                    ti = int(mm[-1]) if mm else ti
                accepted_logs += ti - 1
                rejected_logs.append((todo[ti - 1], r["violated"] or "not a behaviour of the intended protocol"))
                todo = todo[ti:]
            else:
                v.harness_errors.append("TcProtoTrace: " + (r["error_text"] or "timeout")[:600])
                todo = []
        for k, why in rejected_logs:
            names = logs[k]
            text = next(p["text"] for p in inputs if p["name"] == names[0])
            v.violation("hook log %s of Typecheck (%d programs, e.g. %s) is rejected by TcProtoTrace: %s" % (list(k), len(names), names[0], why),
                        {"program": text, "events": list(k), "programs": names[:10]}, {"kind": "protocol", "log": list(k)})
        empty = len(logs.get((), []))
        # binding self-test: a log with work after the error, and one with success after a panic, must be rejected
        st = {}
        for name, lg in (("intact", ["p1", "p2", "err", "ret-err"]), ("work_after_error", ["p1", "p2", "err", "p3", "ret-err"]),
                         ("success_after_panic", ["p1", "panic", "ret-nil"]), ("two_results", ["p1", "err", "ret-err", "ok"])):
            tp = work.path("tcself.json")
            json.dump([{"log": lg}], open(tp, "w"))
            r = vlib.tlc("TcProtoTrace", TCTRACE_CFG, env={"VERIF_TRACES": tp}, workers=1, timeout=120, work=work)
            st[name] = "accepted" if r["violated"] == "NotAllAccepted" else "rejected"
        st["ok"] = st["intact"] == "accepted" and all(st[k] == "rejected" for k in ("work_after_error", "success_after_panic", "two_results"))
        if not st["ok"]:
            v.harness_errors.append("TcProtoTrace self-test failed: %s" % st)
        if parsed and empty > 0:
            v.harness_errors.append("%d typechecked programs produced no hook events (hooks missing?)" % empty)
        cov = {"states": max(1, m_int["distinct"] + tstates), "transitions": max(1, m_int["generated"] + tstates),
               "traces_validated_against_impl": sum(len(logs[k]) for k in keys if k not in [x[0] for x in rejected_logs]),
               "samples": [{"log": list(k), "programs": len(logs[k]), "example": logs[k][0]} for k in keys[:6]] +
                          [{"program": p["name"], "text": p["text"][:300]} for p in inputs[-2:]],
               "protocol_model": {"variant": "intended", "distinct": m_int["distinct"], "ok": m_int["ok"], "liveness_checked": True},
               "as_written_protocol_rejected_by_model": (None if m_aw is None else (not m_aw["ok"])),
               "inputs_total": len(inputs), "inputs_parsed": parsed, "verdicts": dict(verdicts), "distinct_hook_logs": len(keys),
               "hook_logs_accepted": accepted_logs, "hook_logs_rejected": len(rejected_logs), "trace_selftest": st,
               "inputs_by_source": dict(collections.Counter(p["src"] for p in inputs)), "generator_states": gstats.get("states")}
        vlib.write_evidence("C09", "model_checking", cov, time.time() - t0, len(v.violations),
                            ["inputs: every program Gen.tla emits for this tier/seed (derivations and mutants), the fixed corpora, the repository examples, and seeded text-level nonsense edits of them that still parse",
                             "time bound 20 s per program; late crashes are observed within the lifetime of the batch process (12 programs) plus a 1.5 s grace period on selected inputs",
                             "phase outcomes are inferred by TLC from the logged events (plan is not logged)"])
    return v.finish()


CHECKS = {"C09": c09}
