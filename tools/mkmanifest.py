#!/usr/bin/env python3
"""Regenerates /verif/MANIFEST.json from the table below (keeps the manifest valid and in one place)."""
import json, os, subprocess
V = os.path.dirname(os.path.dirname(os.path.abspath(__file__)))
props = [json.loads(l)["id"] for l in open(os.path.join(V, "properties.jsonl"))]

RT_NOTE = ("The non-polarized version has its own specification (GritsNP.tla: data / control rendezvous, adoption of providers at any select point), explored exhaustively for the "
           "contraction-free small programs and bound to the code by GritsNPTrace.tla; sampled behaviours of all three versions (GritsSched.tla) are stepped through the real interpreter by the gate "
           "(spec => code) and must end as predicted. "
           "Trusted: TLC; the tracer/hooks (verif build tag) and the creator-relative id scheme; the 50 ms heartbeat assumption; "
           "model results transfer to the code only for the programs whose recorded traces are accepted by GritsRTTrace. "
           "Bounded: program corpus (fixed + generated for the seed), exhaustive interleavings only for small programs.")

CHECKS = {
 "C01": dict(cat="model_checking", design="DESIGN.md 5 C01",
   text="TLC explores every interleaving of each small accepted program in the implementation-shaped spec GritsRT.tla (async and sync polarized) "
        "checking NoProtocolError / OneMessagePerChannel / OneListener; the real interpreter is bound to the spec by validating every recorded hook "
        "trace (field-by-field ids, messages, head forms) with GritsRTTrace.tla; the verdict itself comes from real runs in all three modes "
        "(a panic of an accepted closed program).",
   note=RT_NOTE, technique="TLA+ specs of the interpreter (GritsRT, GritsNP) + TLC exhaustive exploration + TLC trace validation of hook traces + gate replay of TLC-generated behaviours on the real code"),
 "C02": dict(cat="model_checking", design="DESIGN.md 5 C02",
   text="Invariant QuiescentClean checked by TLC on every terminal state of every interleaving (async: no live process; sync: parked senders only); "
        "on the real code the hook-maintained blocked table at the heartbeat time-out is judged, and TraceQuiesce demands that the spec agrees the "
        "observed state is quiescent.",
   note=RT_NOTE, technique="TLA+ spec + TLC (terminal-state invariant) + trace validation incl. quiescence events"),
 "C03": dict(cat="model_checking", design="DESIGN.md 5 C03",
   text="Invariant ExpectedOutcome: every interleaving of both polarized modes ends with the same printed multiset (the reference one); real runs over "
        "modes x GOMAXPROCS x monitor x seeded yield injection must print equal multisets (non-polarized included for contraction-free programs).",
   note=RT_NOTE, technique="TLA+ spec + TLC over all interleavings + outcome comparison of real runs"),
 "C04": dict(cat="model_checking", design="DESIGN.md 5 C04", engine="Sax",
   text="Sax.tla is an independent futures-style SAX machine (write-once cells, closures for negative providers, no forwards / duplication / polarities); "
        "TLC checks its own confluence, progress and single assignment on every interleaving of each small program and computes the reference multiset; "
        "GritsRT's invariant ExpectedOutcome compares every interleaving of the interpreter spec with it; every print sequence observed from the real "
        "interpreter (3 modes x cores x monitor x yield injection) is validated by SaxTrace.tla (prints logged, all other reference steps inferred).",
   note=RT_NOTE + " np runs of programs with contraction are judged by multiset bounds only.",
   technique="TLA+ reference semantics (Sax.tla) + TLC exhaustive confluence check + TLC trace validation of observed print sequences (SaxTrace.tla)"),
}

TY_NOTE = ("Trusted: TLC; the vworker request/response protocol; the shape grammar of TypeEnum.tla bounds the inputs (at most 3 names, one constructor "
           "over atoms plus nested / shift variants); beyond the exhaustive part, environments are a seeded sample.")
CHECKS.update({
 "C08": dict(cat="model_checking", design="DESIGN.md 5 C08", engine="TypeEq",
   text="TypeEq.tla defines equality as the greatest fixpoint (bisimilarity of the unfoldings) over the sub-terms of an environment; every logged call "
        "of the real types.EqualType (all ordered pairs of names and sub-terms of each environment, run in a crash-isolated worker) must return, and "
        "return Bisim's answer (invariant CaseOK); IsEquivalence and UnrollInvariant are checked by TLC on the same environments.",
   note=TY_NOTE, technique="TLA+ greatest-fixpoint specification + TLC validation of a call/return log of EqualType"),
 "C10": dict(cat="model_checking", design="DESIGN.md 5 C10", engine="TypeDefs",
   text="WellFormed.tla / ModeInfer.tla define well-formedness of written definitions (defined once, references defined, distinct labels, contractive, "
        "known and uniform modes, legal shifts, annotations consistent); the verdict of the real parser+Typecheck on each generated definition set must "
        "equal WFW (invariant VerdictOK) and Unfold of every accepted name must reach a structural type (UnfoldOK).",
   note=TY_NOTE, technique="TLA+ well-formedness specification + TLC validation of a verdict log of the real front end"),
 "C16": dict(cat="model_checking", design="DESIGN.md 5 C16", engine="TypeDefs",
   text="ModeInfer.tla specifies the inferred mode of every type node; the modes the real front end assigned (dumped after Typecheck) must equal it node "
        "by node (InferenceOK, AllSet); AnnotationStable / OrderIndependent are checked on the specification, and on the real code by re-running permuted "
        "and explicitly annotated variants.",
   note=TY_NOTE, technique="TLA+ mode-inference specification + TLC validation of dumped modes + metamorphic re-runs"),
 "C17": dict(cat="model_checking", design="DESIGN.md 5 C17", engine="Modes",
   text="All 4/16/64 tuples: the table recorded from the real Modality methods and StringToMode is loaded into Modes.tla and TLC checks the order laws, "
        "the converse law, sigma monotonicity and the spellings on it. Exhaustive and complete for this finite property.",
   note="Trusted: TLC and the tabulation in vworker (one call per method and argument pair).", technique="TLA+ laws checked by TLC on the recorded method table (exhaustive)"),
})

CHECKS.update({
 "C11": dict(cat="model_checking", design="DESIGN.md 5 C11", engine="Scanner",
   text="Scanner.tla models parser/scanner.go one step per inspected character; TLC enumerates every tape over 17 character classes up to the bound and "
        "checks LinearReads (safety form of termination with the linear bound) and ScanTerminates (liveness under weak fairness); each tape is concretised "
        "and run through the real lexer (token stream must equal the specification's) and through ParseString in a watchdogged worker (must return); "
        "pumped inputs check the linear bound, truncated / byte-mutated real programs the rest of the parser.",
   note="Trusted: TLC, vworker watchdog (5 s per call, 20 s for pumped inputs). The goyacc automaton is exercised, not modelled.",
   technique="TLA+ scanner state machine + TLC exhaustive over all short tapes + replay of every tape on the real lexer/parser"),
 "C12": dict(cat="model_checking", design="DESIGN.md 5 C12", engine="Scanner",
   text="Lexical part decided by Scanner.tla (NoSilentEnd: an out-of-alphabet character never ends the stream silently; every tape replayed on the real parser); "
        "grammar part by conformance experiments on real programs: re-layout with tricky comments must keep exactly the written declarations, insertion of "
        "out-of-alphabet characters at token boundaries must be rejected.",
   note="Trusted: TLC, vworker; the declaration oracle is an independent comment-aware scan for reserved words. The grammar is not specified in TLA+.",
   technique="TLA+ scanner specification + TLC enumeration of tapes + replay on the real parser; insertion / re-layout experiments"),
})

TY_ORACLE = (" Second, independent specification: Typing.tla is the type system as a recursive checker Check(prog) over the node table of the PARSED program; TLC validates the "
             "verdict log of the real parser + Typecheck (TypingConf.tla, VerdictOK) on every closed program of the corpora (repository examples, probe and directed corpora, "
             "generated interacting programs and their ill-typed variants under all naming schemes, annotation-pair programs) and on single-token mutants of them; a wrongly "
             "accepted program is attributed to C05 / C06 / C07 by re-evaluating Check without the substructural discipline / without the declaration of independence.")
GEN_NOTE = ("Trusted: TLC; the renderer tools/gen.py (pre-order rule list -> Grits text); the side conditions in Gen.tla that make a mutant underivable. "
            "Bounded: two fixed type families, <= 4 processes, <= 2 functions, <= 12 rule applications per declaration, seeded -simulate sampling.")
CHECKS.update({
 "C05": dict(cat="model_checking", design="DESIGN.md 5 C05", engine="Gen",
   text="Gen.tla makes typing derivations of the adjoint semi-axiomatic system the behaviours of a state machine (one action per typing rule, exact "
        "context splitting, fresh binders); its Mut actions apply one edit that breaks the substructural discipline (unused / twice-used channel, drop "
        "of a non-weakenable, split of a non-contractable, implicit weakening, equal or shadowing binders, multi-name provider of a non-contractable "
        "process). The real Typecheck must reject every such program; the verdict log is compared with the expectation the specification assigns." + TY_ORACLE,
   note=GEN_NOTE, technique="TLA+ typing-derivation generator with mutation actions (TLC -simulate) + TLA+ type system as recursive checker (Typing.tla) with TLC validation of the real verdict log"),
 "C06": dict(cat="model_checking", design="DESIGN.md 5 C06", engine="Gen",
   text="Gen.tla maintains the declaration of independence (GoalsIndependent is an invariant TLC checks on every generated goal) and its weaker-dep "
        "mutation raises a provider's mode above a channel it uses at function and process declarations; the real Typecheck must reject these. Shift "
        "legality and mode order are covered by C10 / C17." + TY_ORACLE,
   note=GEN_NOTE, technique="TLA+ typing-derivation generator (independence invariant) + mutation + Typing.tla / Indep.tla verdict conformance checked by TLC"),
 "C07": dict(cat="model_checking", design="DESIGN.md 5 C07", engine="Gen",
   text="Both directions on the generated fragment: every complete behaviour of Gen.tla is a derivable program and must be accepted; every C07-class "
        "mutant (payload/continuation exchanged, wrong or foreign label, missing / duplicated branch, arity, close on a client) has no derivation and "
        "must be rejected." + TY_ORACLE,
   note=GEN_NOTE, technique="TLA+ typing-derivation generator + mutation + TLA+ type system as recursive checker (Typing.tla): two-sided verdict conformance of the real typechecker checked by TLC"),
})

CHECKS.update({
 "C09": dict(cat="model_checking", design="DESIGN.md 5 C09", engine="TcProto",
   text="TcProto.tla models the caller / checker-goroutine protocol of process.Typecheck (five phases, each ok / err / panic; every plan and interleaving): "
        "TLC checks NilOnlyIfAllOk, ErrOnlyIfBad, HostAlive, OneResult, NoPhaseAfterFailure, NoWorkAfterReturn and the liveness properties Returns / "
        "WorkerFinishes; the pinned commit's protocol is kept as deviation actions and is rejected by the same properties. Every hook log of the real "
        "Typecheck (all generated derivations and mutants, corpora, seeded parseable nonsense) must be a complete behaviour of the intended protocol "
        "(TcProtoTrace.tla, phase outcomes inferred), and every call must return in time without killing the host (crash-isolated driver, grace period).",
   note="Trusted: TLC; the verifTc hooks; the driver's crash attribution. Bounded: inputs of the tier/seed; 20 s per program; late crashes within the batch lifetime.",
   technique="TLA+ protocol specification (TcProto.tla) model-checked incl. liveness + TLC trace validation of typechecker hook logs + crash/hang observation"),
 "C18": dict(cat="model_checking", design="DESIGN.md 5 C18", engine="Cli",
   text="Cli.tla is the staged state machine of cmd/cli.go (flag resolution with both spellings of each switch, argument check, parse, typecheck?, execute? "
        "with version selection); TLC checks ExitZeroIff, NoRunUnlessChecked, NoOutputOnFailure, NoExecuteNeverRuns, OneDiagnostic, PanicOnlyK3 and "
        "termination over all 15120 configurations (switch spellings x verbosity x argument count x program class). The built grits binary is invoked on "
        "every switch combination (and seeded extras) and each observation (exit status, process spawned, program output, diagnostics, panic trace) must "
        "equal the terminal state the specification reaches for that configuration (invariant ObservationOK in conform mode).",
   note="Trusted: TLC; the classification of the program files (by construction); the observation regexes. Known finding K3 is the only admitted panic.",
   technique="TLA+ specification of the CLI pipeline (Cli.tla) model-checked over all configurations + TLC conformance check of recorded invocations of the built binary"),
 "C19": dict(cat="model_checking", design="DESIGN.md 5 C19", engine="Host",
   text="Host.tla models what survives a run inside one host process (parked goroutines, heartbeat / monitor loops, per-run objects) and states Isolation, "
        "FreshObjects, OutcomeIsFunctionOfProgram and HostSurvives, checked by TLC over all histories up to the bound; the ways isolation was or could be "
        "broken are named deviation actions (late checker goroutine of the pinned commit, a shared definition table) which TLC rejects. Real histories - "
        "sequences of parse / typecheck / run jobs executed by ONE driver process, over a pool of accepted, rejected, unparseable, internally failing and "
        "name-sharing programs in all three execution modes - are validated against the outcomes measured alone in fresh processes (invariant HistoryOK).",
   note="Trusted: TLC; the driver's result records. Bounded: pool of 15 programs, seeded histories (length <= 6 quick / 9 thorough) plus ordered pairs.",
   technique="TLA+ specification of run isolation (Host.tla) model-checked over histories + TLC conformance check of real in-process histories against fresh-process outcomes"),
 "C14": dict(cat="model_checking", design="DESIGN.md 5 C14",
   text="Generated program trees (tools/pgen.py) are rendered under several naming schemes (unique spellings, per-declaration spellings, re-use of consumed "
        "spellings, spellings of other declarations' channels, renamed / cross-namespace type, function and label names, self vs bound provider name) and "
        "declaration orders; all renderings are alpha-equivalent. Sax.tla and GritsRT.tla are evaluated on the dump of every rendering (the reference outcome "
        "must be identical within a group, which guards the oracle); the real typechecker must give all renderings of a tree (well-typed and ill-typed trees) "
        "the same verdict and the real interpreter the same printed multiset and completion status in every mode.",
   note=RT_NOTE, technique="TLA+ reference semantics evaluated on alpha-equivalent renderings (model-level invariance) + metamorphic conformance of the real typechecker / interpreter"),
})

CHECKS.update({
 "C13": dict(cat="model_checking", design="DESIGN.md 5 C13", engine="GritsRT",
   text="The mechanism behind race freedom is an ownership discipline: a process body (syntax tree) is rewritten in place by exactly one goroutine; CALL and DUP copy it, "
        "CUT moves a sub-tree to the child, the monitor gets copies. GritsRT.tla carries this as an ownership layer (tree instance per process) with invariant "
        "NoSharedTree, checked by TLC on every interleaving of the small programs. The code is bound to it: every hook event of a process lists the identities of the "
        "Form nodes reachable from its body; GritsRTTrace.tla maps each real node to the model's tree node <<instance, n>> (NoSharedNode: never two names for one real "
        "node) and Own.tla checks on the traces of all three execution versions that no node is held by two live processes at once (Exclusive). Accesses below the level "
        "of TLA+ actions (debug counters, monitor and subscriber snapshots, runtime bookkeeping) are observed by a race-detector build of the driver over the same "
        "programs x modes x monitor / subscriber x cores x yield injection; any report is a violation.",
   note="Trusted: TLC; the tracer's node identities (a map pins every node, so addresses are never re-used); at most 96 node identities per event (preorder prefix). "
        "The race detector is a dynamic analysis: it reports only accesses that happen in the runs made. The Go memory model itself is not modelled in TLA+.",
   technique="TLA+ ownership invariant (NoSharedTree) model-checked with TLC + TLC trace validation of logged Form-node identities (GritsRTTrace NoSharedNode, Own.tla Exclusive); race-detector build as auxiliary oracle below the action level"),
})

CHECKS.update({
 "C15": dict(cat="model_checking", design="DESIGN.md 5 C15", engine="Print",
   text="Print.tla specifies both directions on token sequences: Show (the tokens a printer must produce: * and -* are right associative and a shift extends to the right, so "
        "exactly a left operand that is itself an output, input or shift type is parenthesised) and Parse (the type sub-grammar of parser.y as a recursive descent). TLC checks "
        "Parse(Show(t)) = t on every written type up to depth 2 (so Show is injective) and rejects the parenthesis-free printer of the pinned commit. The real code is bound to "
        "it by a call log: each generated moded type is printed by String(), lexed by the real scanner and re-parsed by the real parser under its head mode; TLC checks PrintOK "
        "(the real tokens, read by the specified grammar, are the written form of the type), ParserOK (the real parser reads them as the grammar does, with ModeInfer's modes), "
        "RoundTrip (identity) and NoCollision (equal texts only for equal written types). Process terms: every body of the corpus / generated programs is printed by Form.String(), "
        "re-parsed alone and PrintForm.tla's SameTerm compares the denoted terms (structure, names, self flags, labels, callees).",
   note="Trusted: TLC, vworker, the token-name probe of the real lexer. Bounded: types of depth <= 2 exhaustively (sampled in the quick tier) + seeded random types up to depth 5; "
        "terms from the corpus programs. Type annotations of cuts are not part of the printed term by design; explicit polarity marks are known finding K5.",
   technique="TLA+ specification of printer and type grammar (Print.tla: left inverse model-checked with TLC) + TLC validation of a print / lex / parse call log of the real code; PrintForm.tla term equality for process terms"),
})

REASON_TODO = "check not built yet (build in progress, see DESIGN.md section 9)"

def main():
    hooks_commits = subprocess.run(["git", "-C", "/repo", "log", "--format=%H %s"], capture_output=True, text=True).stdout.splitlines()
    hook_shas = [l.split()[0] for l in hooks_commits if "verif hooks" in l or l.split(" ", 1)[1].startswith("verif:")]
    m = {"version": 1,
         "setup_cmd": "python3 tools/vcheck.py --setup",
         "hooks": {"guard": "verif", "enable": "go build -tags verif (harness module /verif/harness, replace grits => /repo)",
                   "baseline_off_cmd": "cd /repo && go test -vet=off -count=1 -timeout 25m ./...",
                   "source_commits": hook_shas, "add_only": True},
         "engines": [
             {"name": "GritsRT", "path": "spec/GritsRT.tla", "serves_properties": ["C01", "C02", "C03", "C04", "C13", "C14"],
              "kind_free_text": "TLA+ specification of the polarized interpreter (one action per critical section), checked by TLC"},
             {"name": "GritsNP", "path": "spec/GritsNP.tla", "serves_properties": ["C01", "C03", "C04", "C13"],
              "kind_free_text": "TLA+ specification of the non-polarized execution version (rendezvous + control channel); GritsNPTrace.tla validates recorded np runs; GritsSched.tla writes behaviours out as gate plans"},
             {"name": "GritsRTTrace", "path": "spec/GritsRTTrace.tla", "serves_properties": ["C01", "C02", "C03", "C04"],
              "kind_free_text": "trace specification: recorded hook events of the real interpreter must be a behaviour of GritsRT"},
             {"name": "Sax", "path": "spec/Sax.tla", "serves_properties": ["C04", "C03", "C14"],
              "kind_free_text": "TLA+ reference semantics (futures-style SAX machine); SaxTrace.tla validates observed print sequences against it"},
             {"name": "TypeEq/WellFormed/ModeInfer/TypeDefs/Modes", "path": "spec/TypeEq.tla", "serves_properties": ["C08", "C10", "C16", "C17"],
              "kind_free_text": "TLA+ specifications of type equality, well-formedness, mode inference and the mode order; TLC validates call logs of the real library"},
             {"name": "Gen", "path": "spec/Gen.tla", "serves_properties": ["C01", "C02", "C03", "C04", "C05", "C06", "C07", "C09", "C14"],
              "kind_free_text": "TLA+ state machine whose behaviours are typing derivations (well-typed programs) and single rule-violating mutations"},
             {"name": "Typing", "path": "spec/Typing.tla", "serves_properties": ["C05", "C06", "C07", "C10"],
              "kind_free_text": "TLA+ type system as a recursive checker over parsed programs; TypingConf.tla validates the verdict log of the real front end"},
             {"name": "TcProto", "path": "spec/TcProto.tla", "serves_properties": ["C09", "C19"],
              "kind_free_text": "TLA+ specification of the Typecheck caller/worker protocol (intended and as-written variants); TcProtoTrace.tla validates hook logs"},
             {"name": "Cli", "path": "spec/Cli.tla", "serves_properties": ["C18"],
              "kind_free_text": "TLA+ specification of the command line pipeline; model mode (all configurations) and conform mode (recorded invocations)"},
             {"name": "Host", "path": "spec/Host.tla", "serves_properties": ["C19"],
              "kind_free_text": "TLA+ specification of run isolation inside one host process; model mode (histories) and conform mode (recorded histories)"},
             {"name": "Print", "path": "spec/Print.tla", "serves_properties": ["C15"],
              "kind_free_text": "TLA+ specification of the type printer and the type grammar (PrintLib / Print / PrintForm); model mode (left inverse on all small types) and conform mode (print / lex / parse log)"},
             {"name": "Own", "path": "spec/Own.tla", "serves_properties": ["C13"],
              "kind_free_text": "TLA+ specification of the ownership of syntax-tree nodes by live processes; TLC validates the node identities logged by the hooks (all execution versions)"},
             {"name": "Scanner", "path": "spec/Scanner.tla", "serves_properties": ["C11", "C12"],
              "kind_free_text": "TLA+ state machine of the hand-written scanner over character classes; TLC enumerates all short inputs"},
             {"name": "vworker", "path": "harness/cmd/vworker", "serves_properties": ["C08", "C09", "C10", "C11", "C12", "C15", "C16", "C17"],
              "kind_free_text": "crash-isolated server for library calls of gertab/Grits"},
             {"name": "vdrive", "path": "harness/cmd/vdrive", "serves_properties": ["C01", "C02", "C03", "C04", "C13", "C19"],
              "kind_free_text": "Go driver linking /repo (tags verif): tracer, gate/replay; vblack = same without the tag"},
         ],
         "checks": [], "notes": "see DESIGN.md", "not_applicable": []}
    for p in props:
        if p in CHECKS:
            c = CHECKS[p]
            m["checks"].append({"property_id": p,
                                "quick_cmd": "python3 tools/vcheck.py %s --tier quick" % p,
                                "thorough_cmd": "python3 tools/vcheck.py %s --tier thorough" % p,
                                "evidence_file": "evidence/%s.json" % p,
                                "replay_cmd_template": "python3 tools/vcheck.py %s --replay {path}" % p,
                                "engine": c.get("engine", "GritsRT"),
                                "level_claimed": {"category": c["cat"], "text": c["text"], "design_ref": c["design"]},
                                "level_note": c["note"], "technique": c["technique"]})
        else:
            m["not_applicable"].append({"property_id": p, "reason": NA.get(p, REASON_TODO)})
    json.dump(m, open(os.path.join(V, "MANIFEST.json"), "w"), indent=1)

NA = {}
if __name__ == "__main__":
    main()
