#!/usr/bin/env python3
"""Regenerates /verif/MANIFEST.json from the table below (keeps the manifest valid and in one place)."""
import json, os, subprocess
V = os.path.dirname(os.path.dirname(os.path.abspath(__file__)))
props = [json.loads(l)["id"] for l in open(os.path.join(V, "properties.jsonl"))]

RT_NOTE = ("Trusted: TLC; the tracer/hooks (verif build tag) and the creator-relative id scheme; the 50 ms heartbeat assumption; "
           "model results transfer to the code only for the programs whose recorded traces are accepted by GritsRTTrace. "
           "Bounded: program corpus (fixed + generated for the seed), exhaustive interleavings only for small programs.")

CHECKS = {
 "C01": dict(cat="model_checking", design="DESIGN.md 5 C01",
   text="TLC explores every interleaving of each small accepted program in the implementation-shaped spec GritsRT.tla (async and sync polarized) "
        "checking NoProtocolError / OneMessagePerChannel / OneListener; the real interpreter is bound to the spec by validating every recorded hook "
        "trace (field-by-field ids, messages, head forms) with GritsRTTrace.tla; the verdict itself comes from real runs in all three modes "
        "(a panic of an accepted closed program).",
   note=RT_NOTE, technique="TLA+ spec of the interpreter + TLC exhaustive exploration + TLC trace validation of hook traces"),
 "C02": dict(cat="model_checking", design="DESIGN.md 5 C02",
   text="Invariant QuiescentClean checked by TLC on every terminal state of every interleaving (async: no live process; sync: parked senders only); "
        "on the real code the hook-maintained blocked table at the heartbeat time-out is judged, and TraceQuiesce demands that the spec agrees the "
        "observed state is quiescent.",
   note=RT_NOTE, technique="TLA+ spec + TLC (terminal-state invariant) + trace validation incl. quiescence events"),
 "C03": dict(cat="model_checking", design="DESIGN.md 5 C03",
   text="Invariant ExpectedOutcome: every interleaving of both polarized modes ends with the same printed multiset (the reference one); real runs over "
        "modes x GOMAXPROCS x monitor x seeded yield injection must print equal multisets (non-polarized included for contraction-free programs).",
   note=RT_NOTE, technique="TLA+ spec + TLC over all interleavings + outcome comparison of real runs"),
}

REASON_TODO = "check not built yet (build in progress, see DESIGN.md section 9)"

def main():
    hooks_commits = subprocess.run(["git", "-C", "/repo", "log", "--format=%H %s"], capture_output=True, text=True).stdout.splitlines()
    hook_shas = [l.split()[0] for l in hooks_commits if "verif hooks" in l or l.split(" ", 1)[1].startswith("verif:")]
    m = {"version": 1,
         "setup_cmd": "python3 tools/vcheck.py --setup",
         "hooks": {"guard": "verif", "enable": "go build -tags verif (harness module /verif/harness, replace grits => /repo)",
                   "baseline_off_cmd": "cd /repo && go test -vet=off -count=1 -timeout 25m ./...",
                   "source_commits": hook_shas, "add_only": True},
         "engines": [
             {"name": "GritsRT", "path": "spec/GritsRT.tla", "serves_properties": ["C01", "C02", "C03", "C04", "C13", "C14"],
              "kind_free_text": "TLA+ specification of the polarized interpreter (one action per critical section), checked by TLC"},
             {"name": "GritsRTTrace", "path": "spec/GritsRTTrace.tla", "serves_properties": ["C01", "C02", "C03", "C04"],
              "kind_free_text": "trace specification: recorded hook events of the real interpreter must be a behaviour of GritsRT"},
             {"name": "vdrive", "path": "harness/cmd/vdrive", "serves_properties": ["C01", "C02", "C03", "C04", "C13", "C19"],
              "kind_free_text": "Go driver linking /repo (tags verif): tracer, gate/replay; vblack = same without the tag"},
         ],
         "checks": [], "notes": "see DESIGN.md", "not_applicable": []}
    for p in props:
        if p in CHECKS:
            c = CHECKS[p]
            m["checks"].append({"property_id": p,
                                "quick_cmd": "python3 tools/vcheck.py %s --tier quick" % p,
                                "thorough_cmd": "python3 tools/vcheck.py %s --tier thorough" % p,
                                "evidence_file": "evidence/%s.json" % p,
                                "replay_cmd_template": "python3 tools/vcheck.py %s --replay {path}" % p,
                                "engine": c.get("engine", "GritsRT"),
                                "level_claimed": {"category": c["cat"], "text": c["text"], "design_ref": c["design"]},
                                "level_note": c["note"], "technique": c["technique"]})
        else:
            m["not_applicable"].append({"property_id": p, "reason": NA.get(p, REASON_TODO)})
    json.dump(m, open(os.path.join(V, "MANIFEST.json"), "w"), indent=1)

NA = {}
if __name__ == "__main__":
    main()
