"""Reference semantics (spec/Sax.tla) as oracle: expected printed multisets, confluence of the reference,
and validation of observed print sequences (spec/SaxTrace.tla)."""
import json, os, re, concurrent.futures, collections
import vlib

SAX_CFG = """SPECIFICATION Spec
CONSTANTS
  Sched = "%(sched)s"
  MaxThreads = %(maxthreads)d
  EmitOn = %(emit)s
INVARIANTS %(invs)s
CONSTRAINT Bound
VIEW View
CHECK_DEADLOCK FALSE
"""

SAXTRACE_CFG = """SPECIFICATION TraceSpec
CONSTANTS
  Sched = "norm"
  MaxThreads = 100000
  EmitOn = FALSE
INVARIANTS NotAllAccepted NoError
POSTCONDITION HighWater
CHECK_DEADLOCK FALSE
"""


def _corpus(progs, expect=None):
    return [{"name": p["name"], "prog": p["dump"], "expect": (expect or {}).get(p["name"], ["?"])} for p in progs]


def normal_runs(progs, work, maxthreads=400, timeout=600):
    """one normalised run of the reference per program: dict name -> {"out": [...], "left": n, "err": str}; programs whose run
    exceeds the bound (non-terminating in the reference) are absent."""
    if not progs:
        return {}, {"distinct": 0, "generated": 0}
    nch = max(1, min(6, len(progs) // 30 + 1))
    chunks = [progs[i::nch] for i in range(nch)]
    chunks = [c for c in chunks if c]
    res, stats = {}, {"distinct": 0, "generated": 0, "errors": []}

    def one(k):
        cpath = work.path("sax_corpus_%d.json" % k)
        opath = work.path("sax_out_%d.ndjson" % k)
        json.dump(_corpus(chunks[k]), open(cpath, "w"))
        if os.path.exists(opath):
            os.remove(opath)
        cfg = SAX_CFG % {"sched": "det", "maxthreads": maxthreads, "emit": "TRUE", "invs": "EmitDone CellsWellFormed"}
        r = vlib.tlc("Sax", cfg, env={"VERIF_CORPUS": cpath, "VERIF_OUT": opath}, workers=1, timeout=timeout, work=work)
        got = {}
        if os.path.exists(opath):
            for line in open(opath):
                line = line.strip()
                if not line:
                    continue
                try:
                    d = json.loads(line)
                    if isinstance(d, str):
                        d = json.loads(d)
                except ValueError:
                    continue
                name = chunks[k][d["pi"] - 1]["name"]
                # with the normalised scheduler a program has several terminal states only through print choices: all have the same bag
                got.setdefault(name, []).append({"out": list(d["out"]) if d["out"] else [], "left": d["left"], "err": d["err"]})
        return r, got

    with concurrent.futures.ThreadPoolExecutor(max_workers=len(chunks)) as ex:
        for r, got in ex.map(one, range(len(chunks))):
            stats["distinct"] += r["distinct"]
            stats["generated"] += r["generated"]
            if not r["ok"]:
                stats["errors"].append((r["violated"] or r["error_text"] or "timeout")[:500])
            res.update(got)
    return res, stats


def expected_bags(progs, work, tier):
    """name -> {"bag": sorted labels, "unique": bool, "from": "Sax"} for the programs the reference runs to completion"""
    res, stats = normal_runs(progs, work)
    out = {}
    for name, terms in res.items():
        bags = {tuple(sorted(t["out"])) for t in terms}
        clean = all(t["err"] == "" and t["left"] == 0 for t in terms)
        out[name] = {"bag": list(sorted(terms[0]["out"])), "unique": len(bags) == 1 and clean, "from": "Sax",
                     "sax_err": next((t["err"] for t in terms if t["err"]), ""), "sax_left": max(t["left"] for t in terms),
                     "terminal_states": len(terms)}
    return out


def confluence(progs, expect, work, maxthreads=60, timeout=600):
    """every interleaving of the reference: single assignment, progress, one multiset"""
    corpus = [p for p in progs if p["name"] in expect]
    if not corpus:
        return {"ok": True, "distinct": 0, "generated": 0, "programs": 0}
    cpath = work.path("sax_all_corpus.json")
    json.dump(_corpus(corpus, {n: e["bag"] for n, e in expect.items()}), open(cpath, "w"))
    cfg = SAX_CFG % {"sched": "all", "maxthreads": maxthreads, "emit": "FALSE", "invs": "NoError Progress OneBag CellsWellFormed"}
    r = vlib.tlc("Sax", cfg, env={"VERIF_CORPUS": cpath, "VERIF_OUT": work.path("unused")}, workers=vlib.NCPU, timeout=timeout, work=work)
    return {"ok": r["ok"], "distinct": r["distinct"], "generated": r["generated"], "violated": r["violated"], "timeout": r["timeout"],
            "error_text": r["error_text"], "programs": len(corpus), "tail": None if r["ok"] else r["out"][-3000:]}


def validate_orders(progs, observations, work, timeout=900, parallel=None):
    """observations: list of {"id", "prog", "prints"}.  Returns {"accepted": n, "rejected": [ids], "errors": [...]}"""
    byname = {p["name"]: p for p in progs}
    names = sorted({o["prog"] for o in observations})
    corpus = _corpus([byname[n] for n in names])
    idx = {n: i + 1 for i, n in enumerate(names)}
    cpath = work.path("saxtr_corpus.json")
    json.dump(corpus, open(cpath, "w"))
    # identical observations are validated once
    groups = collections.OrderedDict()
    for o in observations:
        groups.setdefault((o["prog"], tuple(o["prints"])), []).append(o["id"])
    items = [{"pi": idx[k[0]], "prints": list(k[1]), "ids": ids, "prog": k[0]} for k, ids in groups.items()]
    parallel = parallel or vlib.NCPU
    parts = [items[i::parallel] for i in range(parallel)]
    parts = [p for p in parts if p]
    accepted, rejected, errors = 0, [], []
    states = 0

    def one(k):
        todo = list(parts[k])
        acc, rej, errs, st = 0, [], [], 0
        rnd = 0
        while todo:
            rnd += 1
            tp = work.path("saxtr_%d_%d.json" % (k, rnd))
            json.dump([{"pi": t["pi"], "prints": t["prints"]} for t in todo], open(tp, "w"))
            r = vlib.tlc("SaxTrace", SAXTRACE_CFG, env={"VERIF_CORPUS": cpath, "VERIF_TRACES": tp, "VERIF_OUT": work.path("unused")},
                         workers=1, timeout=timeout, work=work)
            os.remove(tp)
            st += r["distinct"]
            if r["violated"] == "NotAllAccepted":
                acc += sum(len(t["ids"]) for t in todo)
                todo = []
            elif r["violated"] == "NoError":
                m = re.findall(r"^/\\ ti = (\d+)", r["out"], re.M)
                ti = int(m[-1]) if m else 1
                acc += sum(len(t["ids"]) for t in todo[:ti - 1])
                rej.append(dict(todo[ti - 1], why="the reference semantics fails on this program: " + str(vlib.last_state_vars(r["out"], ["err"]))))
                todo = todo[ti:]
            elif r["ok"]:
                m = re.search(r'"SAXHW", (\d+)', r["out"])
                ti = int(m.group(1)) if m else 1
                acc += sum(len(t["ids"]) for t in todo[:ti - 1])
                rej.append(dict(todo[ti - 1], why="no behaviour of the reference prints this sequence and then stops"))
                todo = todo[ti:]
            else:
                errs.append((r["error_text"] or "timeout")[:800])
                todo = []
        return acc, rej, errs, st

    with concurrent.futures.ThreadPoolExecutor(max_workers=len(parts) or 1) as ex:
        for acc, rej, errs, st in ex.map(one, range(len(parts))):
            accepted += acc
            rejected += rej
            errors += errs
            states += st
    return {"observations": len(observations), "distinct_observations": len(items), "accepted": accepted, "rejected": rejected,
            "errors": errors, "states": states}


def selftest(progs, observations, work):
    """the trace spec must reject an observation with a missing label and one with a foreign label, and accept the intact one"""
    cand = [o for o in observations if len(o["prints"]) >= 2]
    if not cand:
        return {"ran": False}
    o = cand[0]
    variants = {"intact": o["prints"], "missing_label": o["prints"][:-1], "foreign_label": o["prints"][:-1] + ["__never_printed__"],
                "reversed": list(reversed(o["prints"]))}
    out = {"ran": True, "observation": o["id"], "prints": o["prints"]}
    for name, pr in variants.items():
        r = validate_orders(progs, [{"id": name, "prog": o["prog"], "prints": pr}], work, parallel=1)
        out[name] = "accepted" if r["accepted"] == 1 else ("rejected" if r["rejected"] else "error")
    out["ok"] = out["intact"] == "accepted" and out["missing_label"] == "rejected" and out["foreign_label"] == "rejected"
    return out


if __name__ == "__main__":
    import rt
    vlib.build(("vdrive",))
    with vlib.Work("sax") as w:
        progs = rt.frontend(rt.fixed_corpus())
        run = [p for p in progs if p["runnable"]]
        res, stats = normal_runs(run, w)
        print(stats)
        for p in run:
            print(p["name"], res.get(p["name"]))
