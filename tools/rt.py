"""Runtime campaign shared by C01-C04 (and C13/C14): corpus -> real front end -> dumps ->
(1) real runs over a configuration matrix with hook traces, (2) TLC exhaustive exploration of the
small programs in GritsRT (all interleavings, both polarized modes), (3) TLC validation of every
recorded trace against GritsRT, (4) Sax reference outcomes.  Results are cached per
(content of /repo's working tree, seed, tier)."""
import json, os, sys, glob, time, hashlib, fcntl, random, collections, concurrent.futures
import vlib
sys.setrecursionlimit(200000)

EXAMPLES_SKIP = set()


def tree_key():
    r = vlib.sh(["git", "-C", vlib.REPO, "rev-parse", "HEAD"]).stdout
    d = vlib.sh(["git", "-C", vlib.REPO, "diff", "HEAD"]).stdout
    u = vlib.sh(["git", "-C", vlib.REPO, "ls-files", "--others", "--exclude-standard"]).stdout
    h = hashlib.sha256((r + d + u).encode())
    for f in u.split():
        try:
            h.update(open(os.path.join(vlib.REPO, f), "rb").read())
        except OSError:
            pass
    # the verification machinery itself is part of the key
    for f in sorted(glob.glob(os.path.join(vlib.VERIF, "spec", "*.tla")) + glob.glob(os.path.join(vlib.VERIF, "tools", "*.py"))
                    + glob.glob(os.path.join(vlib.VERIF, "harness", "cmd", "*", "*.go")) + glob.glob(os.path.join(vlib.VERIF, "corpus", "*", "*"))):
        h.update(open(f, "rb").read())
    return h.hexdigest()[:20]


def fixed_corpus():
    progs = []
    for f in sorted(glob.glob(os.path.join(vlib.REPO, "examples", "*.grits")) + glob.glob(os.path.join(vlib.REPO, "examples", "others", "*.grits"))):
        progs.append({"name": "ex/" + os.path.basename(f), "text": open(f).read(), "src": "repo-example"})
    for f in sorted(glob.glob(os.path.join(vlib.VERIF, "corpus", "rt", "*.grits"))):
        progs.append({"name": "rt/" + os.path.basename(f), "text": open(f).read(), "src": "probe"})
    # the directed typing corpora: most of these programs are ill-typed and never run; should a changed typechecker accept one, it is run like any
    # accepted program (type safety is about whatever the typechecker lets through)
    for d in ("typing", "tc"):
        for f in sorted(glob.glob(os.path.join(vlib.VERIF, "corpus", d, "*.grits"))):
            if os.path.getsize(f) < 20000:
                progs.append({"name": "%s/%s" % (d, os.path.basename(f)), "text": open(f).read(), "src": "directed-typing"})
    return progs


def contraction_free(dump):
    if any(n["k"] == "split" for n in dump["nodes"]):
        return False
    return all(len(p["provs"]) == 1 for p in dump["procs"])


RT_CFG = """SPECIFICATION Spec
CONSTANTS
  Modes = {%(modes)s}
  TraceMode = FALSE
  MaxChans = %(maxchans)d
INVARIANTS %(invs)s
CONSTRAINT StateBound
VIEW View
CHECK_DEADLOCK FALSE
"""

TRACE_CFG = """SPECIFICATION TraceSpec
CONSTANTS
  Modes = {"async", "sync"}
  TraceMode = TRUE
  MaxChans = 1000000
INVARIANTS NoProtocolError OneMessagePerChannel OneListener NoSharedTree NoSharedNode
CHECK_DEADLOCK TRUE
"""


def frontend(progs):
    """typecheck + dump every program with the real front end"""
    jobs = [{"id": p["name"], "text": p["text"], "mode": "async", "typecheck": True, "execute": False, "dump": True} for p in progs]
    res = vlib.run_jobs(os.path.join(vlib.BUILD, "vdrive"), jobs, batch=8, timeout=20)
    for p in progs:
        r = res[p["name"]]
        p["fe"] = {k: r.get(k) for k in ("parse", "tc", "assumed", "nprocs", "crash", "hang")}
        p["dump"] = r.get("dump")
        p["accepted"] = r.get("tc") == "ok" and r.get("parse") == "ok"
        p["closed"] = r.get("assumed", 0) == 0
        p["runnable"] = bool(p["accepted"] and p["closed"] and r.get("nprocs", 0) > 0 and p["dump"] and _depth(p["dump"]) <= 120)   # (TLC's JSON reader stops at nesting depth 255)
    return progs


def _depth(x):
    if isinstance(x, dict):
        return 1 + max([_depth(v) for v in x.values()] or [0])
    if isinstance(x, list):
        return 1 + max([_depth(v) for v in x] or [0])
    return 0


def matrix(tier, seed):
    """run configurations: (mode, gomaxprocs, monitor, yield, runseed)"""
    rng = random.Random(seed)
    cfgs = []
    if tier == "quick":
        for mode in ("async", "sync"):
            cfgs += [(mode, 16, False, 0.0, seed), (mode, 1, False, 0.3, seed + 1), (mode, 2, True, 0.3, seed + 2)]
        cfgs += [("np", 16, False, 0.0, seed), ("np", 2, False, 0.3, seed + 1)]
        cfgs += [("async", 16, 2, 0.0, seed + 3), ("np", 4, 2, 0.3, seed + 3)]
    else:
        for mode in ("async", "sync", "np"):
            for gmp in (1, 2, 16):
                for mon in (False, True, 2):
                    for k in range(3):
                        cfgs.append((mode, gmp, mon, 0.0 if k == 0 else 0.4, seed + 7 * k + gmp))
    return cfgs


def wide_matrix(cfgs, name):
    """reduced configuration matrix for the wide (generated, many) programs: one run per mode plus a perturbed single-core run"""
    seed = cfgs[0][4]
    return [("async", 16, False, 0.0, seed), ("sync", 16, False, 0.0, seed), ("async", 1, False, 0.3, seed + 1), ("np", 16, False, 0.0, seed)]


def pgen_programs(tier, seed):
    """alpha-equivalent renderings of generated trees (tools/pgen.py): the same tree under several naming schemes / declaration orders"""
    import pgen
    n = 45 if tier == "quick" else 400
    out = []
    for k in range(n):
        ast = seed * 100000 + k
        shape = "dropserver" if k % 5 == 4 else "random"
        P = pgen.generate(ast, fuel=4 + k % 3, lin=(k % 6 == 5), shape=shape)
        variants = [("unique", None, "plain"), ("local", None, "plain"), ("reuse", None, "plain"), ("clash", None, "plain"), ("reuse", ast + 7, "plain")]
        if k % 3 == 0:
            variants += [("reuse", None, "ren"), ("local", ast + 9, "cross")]
        for sch, order, ids in variants:
            out.append({"name": "pg/%d-%s%s%s" % (ast, sch, "-perm" if order else "", "" if ids == "plain" else "-" + ids),
                        "text": pgen.render(P, sch, seed=ast, order=order, ids=ids), "src": "pgen", "wide": True, "ast": ast, "scheme": sch, "ids": ids})
        if k % 4 == 0:
            # an ill-typed tree (one elimination removed) under every naming: the verdict must not depend on the spelling
            Q = pgen.generate(ast, fuel=4 + k % 3, lin=(k % 6 == 5), shape=shape)
            what = pgen.mutate(Q, ast)
            if what:
                for sch, order, ids in [("unique", None, "plain"), ("local", None, "plain"), ("reuse", None, "plain"), ("clash", ast + 3, "plain"), ("reuse", None, "cross")]:
                    out.append({"name": "pgm/%d-%s%s" % (ast, sch, "" if ids == "plain" else "-" + ids), "text": pgen.render(Q, sch, seed=ast, order=order, ids=ids),
                                "src": "pgen-mutant", "wide": True, "ast": -ast, "scheme": sch, "ids": ids, "mutation": what})
    return out


def real_runs(progs, cfgs, trace=True):
    binary = os.path.join(vlib.BUILD, "vdrive")

    def mk(p, cfg, max_ms, max_events):
        (mode, gmp, mon, yld, rs) = cfg
        jid = "%s|%s|%d|%d|%.1f|%d" % (p["name"], mode, gmp, int(mon), yld, rs)
        # mon: False / True = monitor, 2 = monitor with a subscriber that serialises every published snapshot (the web front end's configuration)
        return {"id": jid, "text": p["text"], "mode": mode, "typecheck": True, "execute": True, "monitor": bool(mon), "subscriber": int(mon) == 2,
                "gomaxprocs": gmp, "seed": rs,
                "yield": yld, "trace": trace, "dump": False, "max_ms": max_ms, "max_events": max_events}

    # phase 1: one asynchronous run per program classifies it (terminates within the bound? how large?)
    probe = ("async", 16, False, 0.0, 0)
    jobs1 = [mk(p, probe, 4000, 8000) for p in progs if p["runnable"]]
    res1 = vlib.run_jobs(binary, jobs1, batch=1, timeout=30)
    for p in progs:
        if not p["runnable"]:
            continue
        r = res1["%s|async|16|0|0.0|0" % p["name"]]
        p["terminates"] = not (r.get("timeout") or r.get("overflow") or r.get("hang"))
        p["probe_crash"] = r.get("crash")
    # a probe cut short by the heartbeat (machine load) says nothing about termination: such programs are probed again with a 3 s settle time,
    # and count as terminating only if that run ends with nobody able to move
    if trace:
        unsure = [p for p in progs if p["runnable"] and p.get("terminates") and not p.get("probe_crash")
                  and premature_quiescence(res1["%s|async|16|0|0.0|0" % p["name"]].get("events") or [], "async")]
        if unsure:
            jobs1b = [dict(mk(p, probe, 10000, 8000), id="%s#probe2" % p["name"]) for p in unsure]
            res1b = vlib.run_jobs(binary, jobs1b, batch=1, timeout=40, parallel=4, extra_env={"VERIF_SETTLE_MS": "3000"})
            for p in unsure:
                r = res1b.get("%s#probe2" % p["name"]) or {"timeout": True}
                p["terminates"] = not (r.get("timeout") or r.get("overflow") or r.get("hang") or r.get("prints") is None
                                       or premature_quiescence(r.get("events") or [], "async"))
                p["probe_repeated"] = True
    # phase 2: the configuration matrix for the programs that terminate
    jobs = [mk(p, c, 8000, 30000) for p in progs if p["runnable"] and p.get("terminates")
            for c in (wide_matrix(cfgs, p["name"]) if p.get("wide") else cfgs)]
    res = vlib.run_jobs(binary, jobs, batch=1, timeout=30)
    # a run whose heartbeat timed out before the last event (machine load) is repeated, not judged
    for attempt in range(3):
        redo = [j for j in jobs if res[j["id"]].get("late", 0) > 0]
        if not redo:
            break
        res.update(vlib.run_jobs(binary, redo, batch=1, timeout=30, parallel=4))
    runs = []
    allres = [(j, res[j["id"]]) for j in jobs] + [(j, res1[j["id"]]) for j in jobs1 if res1[j["id"]].get("crash") or not
              next(p for p in progs if p["name"] == j["id"].split("|")[0]).get("terminates")]
    term = {p["name"]: bool(p.get("terminates")) for p in progs if p["runnable"]}     # (a program whose probe stayed inconclusive counts as non-terminating)
    for j, r in allres:
        name = j["id"].split("|")[0]
        runs.append({"id": j["id"], "prog": name, "mode": j["mode"], "gomaxprocs": j["gomaxprocs"], "monitor": j["monitor"], "subscriber": j.get("subscriber", False),
                     "yield": j["yield"], "seed": j["seed"], "crash": r.get("crash"), "hang": r.get("hang", False) or r.get("timeout", False),
                     "prints": r.get("prints"), "blocked": r.get("blocked"), "late": r.get("late", 0), "pcount": r.get("pcount"),
                     "dcount": r.get("dcount"), "events": [] if r.get("overflow") or r.get("timeout") else (r.get("events") or []),
                     "ran": r.get("ran", False),
                     "nonterminating": bool(r.get("timeout") or r.get("overflow")) or not term.get(name, True)})
    return runs


def premature_quiescence(events, mode):
    """True if the heartbeat time-out fired although some process could still move (machine load): such a run is not judged.
    Decided from the run's own events: a live process parked at a form that never blocks, or waiting on a channel that holds a message."""
    last, live, pending = {}, set(), collections.Counter()
    for e in events:
        if e["e"] == "quiesce":
            break
        p = tuple(e["p"])
        if e["e"] == "spawn":
            live.add(tuple(e["child"]))
            continue
        if e["e"] == "end":
            live.discard(p)
        if e["e"] == "send" and not e["ctl"]:
            pending[tuple(e["c"])] += 1
        if e["e"] == "recv" and not e["ctl"]:
            pending[tuple(e["c"])] -= 1
        last[p] = e
    for p in live:
        e = last.get(p)
        if e is None:
            return True            # spawned, never ran
        if e["e"] in ("print", "call", "recv", "spawn"):
            return True            # in the middle of a step
        if e["e"] == "at":
            k = e["kind"]
            if k in ("new", "call", "print", "split", "drop"):
                return True
            if mode in ("async", "sync") and k in ("send", "sel", "cast", "close"):
                return True    # (the polarized versions log the send before the channel operation: a process parked at a sending form has not reached it yet)
            if k in ("recv", "case", "wait", "shift"):
                if len(e["provs"]) > 1:
                    return True    # owes a duplication
                c = tuple(e["names"][0]) if e["names"] and e["names"][0] else (tuple(e["provs"][0]) if e["provs"] else ())
                if mode != "np" and pending[c] > 0:
                    return True
    if mode == "np":
        # rendezvous: a parked sender whose target is the channel a parked receiver listens on can still move
        targets, listens = set(), set()
        for p in live:
            e = last.get(p)
            if e is None or e["e"] != "at":
                continue
            k = e["kind"]
            own = tuple(e["provs"][0]) if e["provs"] else ()
            first = tuple(e["names"][0]) if e["names"] and e["names"][0] else own
            if k in ("send", "sel", "cast", "close"):
                targets.add(first)
            elif k in ("recv", "case", "wait", "shift"):
                listens.add(first)
        if targets & listens:
            return True
    return False


def split_chunks(xs, n):
    k = max(1, (len(xs) + n - 1) // n)
    return [xs[i:i + k] for i in range(0, len(xs), k)]


def exhaustive(progs, work, modes=("async", "sync"), maxchans=300, timeout=600, invs=None, expect=None):
    """one TLC run over all given programs; on a violation, rerun per program to attribute it."""
    invs = invs or "NoProtocolError OneMessagePerChannel OneListener QuiescentClean ExpectedOutcome NoSharedTree"
    corpus = [{"name": p["name"], "prog": p["dump"], "typed": True, "expect": (expect or {}).get(p["name"], ["?"])} for p in progs]
    if not corpus:
        return {"ok": True, "distinct": 0, "generated": 0, "per_prog": {}, "timeout": False}
    cfg = RT_CFG % {"modes": ", ".join('"%s"' % m for m in modes), "maxchans": maxchans, "invs": invs}
    path = work.path("corpus_exh.json")
    json.dump(corpus, open(path, "w"))
    r = vlib.tlc("GritsRT", cfg, env={"VERIF_CORPUS": path}, workers=vlib.NCPU, timeout=timeout, work=work)
    out = {"ok": r["ok"], "distinct": r["distinct"], "generated": r["generated"], "depth": r["depth"], "timeout": r["timeout"],
           "violated": r["violated"], "error_text": r["error_text"], "per_prog": {}, "wall": r["wall"]}
    if r["ok"] or r["timeout"]:
        return out

    def one(i):
        p1 = work.path("corpus_one_%d.json" % i)
        json.dump([corpus[i]], open(p1, "w"))
        rr = vlib.tlc("GritsRT", cfg, env={"VERIF_CORPUS": p1}, workers=2, timeout=timeout, work=work)
        return corpus[i]["name"], rr

    with concurrent.futures.ThreadPoolExecutor(max_workers=6) as ex:
        for name, rr in ex.map(one, range(len(corpus))):
            if not rr["ok"]:
                out["per_prog"][name] = {"violated": rr["violated"], "timeout": rr["timeout"], "error_text": rr["error_text"],
                                         "trace_tail": rr["out"][-6000:] if rr["violated"] else None}
    return out


NP_CFG = """INIT NPInit
NEXT NPNext
CONSTANTS
  Modes = {"np"}
  TraceMode = FALSE
  MaxChans = %(maxchans)d
INVARIANTS %(invs)s
CONSTRAINT StateBound
VIEW View
CHECK_DEADLOCK FALSE
"""


def exhaustive_np(progs, work, maxchans=300, timeout=600, expect=None):
    """GritsNP.tla: every interleaving of the non-polarized execution version of each contraction-free small program"""
    invs = "NoProtocolError NPExpectedOutcome NoSharedTree"
    corpus = [{"name": p["name"], "prog": p["dump"], "typed": True, "expect": (expect or {}).get(p["name"], ["?"])} for p in progs]
    if not corpus:
        return {"ok": True, "distinct": 0, "generated": 0, "per_prog": {}, "timeout": False, "programs": 0}
    cfg = NP_CFG % {"maxchans": maxchans, "invs": invs}
    path = work.path("corpus_np.json")
    json.dump(corpus, open(path, "w"))
    r = vlib.tlc("GritsNP", cfg, env={"VERIF_CORPUS": path}, workers=vlib.NCPU, timeout=timeout, work=work)
    out = {"ok": r["ok"], "distinct": r["distinct"], "generated": r["generated"], "depth": r["depth"], "timeout": r["timeout"], "violated": r["violated"],
           "error_text": r["error_text"], "per_prog": {}, "wall": r["wall"], "programs": len(corpus)}
    if r["ok"] or r["timeout"]:
        return out

    def one(i):
        p1 = work.path("corpus_np_%d.json" % i)
        json.dump([corpus[i]], open(p1, "w"))
        rr = vlib.tlc("GritsNP", cfg, env={"VERIF_CORPUS": p1}, workers=2, timeout=timeout, work=work)
        return corpus[i]["name"], rr

    with concurrent.futures.ThreadPoolExecutor(max_workers=6) as ex:
        for name, rr in ex.map(one, range(len(corpus))):
            if not rr["ok"]:
                out["per_prog"][name] = {"violated": rr["violated"], "timeout": rr["timeout"], "error_text": rr["error_text"],
                                         "trace_tail": rr["out"][-6000:] if rr["violated"] else None}
    return out


def balanced_chunks(traces, n):
    bins = [[] for _ in range(n)]
    load = [0] * n
    for t in sorted(traces, key=lambda t: -len(t["events"])):
        k = load.index(min(load))
        bins[k].append(t)
        load[k] += len(t["events"]) + 50
    return [b for b in bins if b]


TRACE_CFG_NP = """SPECIFICATION TraceSpec
CONSTANTS
  Modes = {"np"}
  TraceMode = TRUE
  MaxChans = 1000000
INVARIANTS NoProtocolError NoSharedTree NoSharedNode
CHECK_DEADLOCK TRUE
"""


def validate_traces(progs, runs, work, chunks=None, timeout=900, max_events=1200, np=False):
    """TLC trace validation of every recorded polarized run (np=True: of every non-polarized run, against GritsNPTrace).
    Returns list of per-chunk results with rejected trace ids."""
    byname = {p["name"]: p for p in progs}
    modes = ("np",) if np else ("async", "sync")
    spec, tcfg = ("GritsNPTrace", TRACE_CFG_NP) if np else ("GritsRTTrace", TRACE_CFG)
    runs = [r for r in runs if r["mode"] in modes]
    names = sorted({r["prog"] for r in runs if r["events"] and r["mode"] in modes and not r["crash"]})
    corpus = [{"name": n, "prog": byname[n]["dump"], "typed": True, "expect": ["?"]} for n in names]
    idx = {n: i + 1 for i, n in enumerate(names)}
    traces = [{"id": r["id"], "pi": idx[r["prog"]], "mode": r["mode"], "events": r["events"]} for r in runs
              if r["events"] and r["mode"] in modes and not r["crash"] and not r["late"] and len(r["events"]) <= max_events]
    skipped_long = sum(1 for r in runs if r["events"] and r["mode"] in modes and len(r["events"]) > max_events)
    cpath = work.path("corpus_tr%s.json" % ("_np" if np else ""))
    json.dump(corpus, open(cpath, "w"))
    chunks = chunks or min(vlib.NCPU, max(1, len(traces) // 4))
    parts = balanced_chunks(traces, chunks)
    accepted, rejected, events = 0, [], 0

    def one(k):
        part = parts[k]
        todo = list(part)
        acc, rej, evs = 0, [], 0
        # a rejected trace stops the run: record it, then continue with the traces after it
        while todo:
            tp = work.path("traces%s_%d_%d.json" % ("_np" if np else "", k, len(todo)))
            json.dump(todo, open(tp, "w"))
            r = vlib.tlc(spec, tcfg, env={"VERIF_CORPUS": cpath, "VERIF_TRACES": tp}, workers=1, timeout=timeout,
                         work=work, extra=("-difftrace",))
            os.remove(tp)
            if r["ok"]:
                acc += len(todo)
                evs += sum(len(t["events"]) for t in todo)
                todo = []
            elif r["deadlock"] or r["violated"]:
                lv = vlib.last_state_vars(r["out"], ["ti", "l"])
                ti = int(lv.get("ti", "1"))
                l = int(lv.get("l", "0"))
                bad = todo[ti - 1]
                acc += ti - 1
                evs += sum(len(t["events"]) for t in todo[:ti - 1])
                ev = bad["events"][l - 1] if 1 <= l <= len(bad["events"]) else None
                rej.append({"id": bad["id"], "at": l, "event": ev, "why": ("invariant " + r["violated"]) if r["violated"] else "no matching spec step",
                            "of": len(bad["events"])})
                todo = todo[ti:]
            else:
                rej.append({"id": "(chunk %d)" % k, "at": 0, "event": None, "why": "TLC error: " + (r["error_text"] or "timeout")[:1500], "harness": True})
                todo = []
        return acc, rej, evs

    with concurrent.futures.ThreadPoolExecutor(max_workers=len(parts) or 1) as ex:
        for acc, rej, evs in ex.map(one, range(len(parts))):
            accepted += acc
            rejected += rej
            events += evs
    return {"traces": len(traces), "accepted": accepted, "rejected": rejected, "events": events, "skipped_long": skipped_long}


OWN_CFG = """SPECIFICATION Spec
INVARIANTS Exclusive Disjoint
CHECK_DEADLOCK FALSE
"""


def own_project(events):
    return [{"e": e["e"], "p": e["p"], "child": e.get("child", []), "tree": e.get("tree", [])} for e in events if e["e"] in ("spawn", "at", "end")]


def validate_ownership(runs, work, timeout=900, max_events=6000, selftest=True):
    """Own.tla on every recorded run of every execution version (np included): no Form node is held by two live processes at once."""
    traces = [{"id": r["id"], "events": own_project(r["events"])} for r in runs if r["events"] and not r["crash"] and len(r["events"]) <= max_events]
    parts = balanced_chunks(traces, min(vlib.NCPU, max(1, len(traces) // 6)))
    res = {"traces": len(traces), "events": sum(len(t["events"]) for t in traces), "clashes": [], "errors": [], "states": 0,
           "by_mode": dict(collections.Counter(t["id"].split("|")[1] for t in traces))}

    def one(k):
        todo = list(parts[k])
        clashes, errors, states = [], [], 0
        while todo:
            tp = work.path("own_%d_%d.json" % (k, len(todo)))
            json.dump(todo, open(tp, "w"))
            r = vlib.tlc("Own", OWN_CFG, env={"VERIF_TRACES": tp}, workers=1, timeout=timeout, work=work)
            os.remove(tp)
            states += r["distinct"]
            if r["ok"]:
                break
            if r["violated"]:
                lv = vlib.last_state_vars(r["out"], ["ti", "l", "clash"])
                ti = int(lv.get("ti", "1"))
                clashes.append({"id": todo[ti - 1]["id"], "at": int(lv.get("l", "0")), "clash": lv.get("clash", "")[:300]})
                todo = todo[ti:]
            else:
                errors.append((r["error_text"] or "timeout")[:800])
                break
        return clashes, errors, states

    if parts:
        with concurrent.futures.ThreadPoolExecutor(max_workers=len(parts)) as ex:
            for c, e, st in ex.map(one, range(len(parts))):
                res["clashes"] += c
                res["errors"] += e
                res["states"] += st
    if selftest and traces:
        # binding self-test: the same run with one process made to hold another live process's node must be rejected
        t = max(traces, key=lambda t: len(t["events"]))
        evs = json.loads(json.dumps(t["events"]))
        ats = [i for i, e in enumerate(evs) if e["e"] == "at" and e["tree"]]
        st = {"ran": False}
        for i in ats:
            live = [j for j in ats if j < i and evs[j]["p"] != evs[i]["p"] and not any(x["e"] == "end" and x["p"] == evs[j]["p"] for x in evs[j:i])
                    and not any(x["e"] == "at" and x["p"] == evs[j]["p"] for x in evs[j + 1:i])]
            if live:
                evs[i] = dict(evs[i], tree=evs[i]["tree"] + [evs[live[-1]]["tree"][0]])
                tp = work.path("own_self.json")
                json.dump([{"id": "selftest", "events": evs}], open(tp, "w"))
                r = vlib.tlc("Own", OWN_CFG, env={"VERIF_TRACES": tp}, workers=1, timeout=300, work=work)
                st = {"ran": True, "trace": t["id"], "corrupted": "rejected" if r["violated"] else ("accepted" if r["ok"] else "error")}
                st["ok"] = st["corrupted"] == "rejected"
                break
        res["selftest"] = st
    return res


def binding_selftest(progs, runs, work, np=False):
    """the trace spec must reject a trace with one corrupted field and one with a removed event"""
    byname = {p["name"]: p for p in progs}
    smode = "np" if np else "async"
    spec, tcfg = ("GritsNPTrace", TRACE_CFG_NP) if np else ("GritsRTTrace", TRACE_CFG)
    cand = [r for r in runs if r["events"] and r["mode"] == smode and not r["crash"] and not r.get("late") and any(e["e"] == "recv" and not e["ctl"] for e in r["events"])
            and len(r["events"]) < 400]
    if not cand:
        return {"ran": False}
    r = cand[0]
    corpus = [{"name": r["prog"], "prog": byname[r["prog"]]["dump"], "typed": True, "expect": ["?"]}]
    cpath = work.path("corpus_self.json")
    json.dump(corpus, open(cpath, "w"))
    out = {"ran": True, "trace": r["id"]}
    evs = json.loads(json.dumps(r["events"]))
    k = [i for i, e in enumerate(evs) if e["e"] == "recv" and not e["ctl"]][0]
    variants = {"intact": evs, "corrupt_field": [dict(e, c=[9, 9]) if i == k else e for i, e in enumerate(evs)],
                "removed_event": evs[:k] + evs[k + 1:]}
    for name, ev in variants.items():
        tp = work.path("traces_self_%s.json" % name)
        json.dump([{"id": name, "pi": 1, "mode": smode, "events": ev}], open(tp, "w"))
        rr = vlib.tlc(spec, tcfg, env={"VERIF_CORPUS": cpath, "VERIF_TRACES": tp}, workers=1, timeout=300, work=work)
        out[name] = "accepted" if rr["ok"] else ("rejected" if rr["deadlock"] or rr["violated"] else "error")
    out["ok"] = out["intact"] == "accepted" and out["corrupt_field"] == "rejected" and out["removed_event"] == "rejected"
    return out


def replay_stage(progs, small, work, tier, seed):
    """spec => code: (a) sampled behaviours of GritsRT / GritsNP (all three execution versions) of the small programs, (b) for small programs with
    contraction a search of the non-polarized model for a run-time error; each behaviour is stepped through the real interpreter by the gate."""
    import replay
    byname = {p["name"]: p for p in progs}
    small = [byname[n] for n in small if byname[n].get("dump")]
    out = {"records": [], "sampled": 0, "searched": 0, "stats": {}}
    if not small:
        return out
    nsim = 240 if tier == "quick" else 2500
    plans, st = replay.plans_for(small, work, simulate=nsim, timeout=240 if tier == "quick" else 900, seed=seed, limit_per_prog=4 if tier == "quick" else 12, tag="_sim")
    out["stats"]["simulate"] = st
    out["sampled"] = sum(len(v) for v in plans.values())
    recs = replay.replay(small, plans)
    # search of the np model for errors (programs with contraction: the schedule-dependent adoption of providers, known finding K4)
    cand = [p for p in small if not contraction_free(p["dump"])][:4 if tier == "quick" else 24]

    def search(p):
        pl, st2 = replay.plans_for([p], work, modes=("np",), timeout=40 if tier == "quick" else 180, stop_at_error=True, tag="_s_" + str(abs(hash(p["name"]))), workers=2)
        return p, pl

    with concurrent.futures.ThreadPoolExecutor(max_workers=6) as ex:
        for p, pl in ex.map(search, cand):
            out["searched"] += 1
            if pl:
                recs += replay.replay([p], pl)
    # stored behaviours (corpus/plans): counterexamples TLC found earlier, replayed on every run (a listed finding shows up deterministically)
    allby = {p["name"]: p for p in progs}
    for f in sorted(glob.glob(os.path.join(vlib.VERIF, "corpus", "plans", "*.json"))):
        d = json.load(open(f))
        p = allby.get(d["program"])
        if p and p.get("runnable"):
            recs += replay.replay([p], {(d["program"], d["mode"]): [{"plan": d["plan"], "out": d["out"], "err": d["err"]}]})
            out["stored_plans"] = out.get("stored_plans", 0) + 1
    for r in recs:
        r["verdict"] = replay.judge(r)
        # a run whose heartbeat time-out fired although a process could still move (machine load) is not judged (same rule as for recorded runs)
        r["premature"] = bool(r["events"]) and premature_quiescence(r["events"], r["mode"])
    # the runs that followed their plan are validated like any recorded run: event by event they must be the behaviour the plan came from
    followed = [{"id": r["id"], "prog": r["prog"], "mode": r["mode"], "events": r["events"], "crash": r["crash"], "late": r["late"]}
                for r in recs if r["verdict"] == "agree" and r["events"]]
    vp_ = validate_traces(progs, followed, work, max_events=1500)
    vn_ = validate_traces(progs, followed, work, max_events=1500, np=True)
    out["validated"] = {"traces": vp_["traces"] + vn_["traces"], "accepted": vp_["accepted"] + vn_["accepted"],
                        "rejected": [dict(x, event=None) if False else x for x in (vp_["rejected"] + vn_["rejected"])][:10]}
    for r in recs:
        r["events"] = None
    out["records"] = recs
    out["by_verdict"] = dict(collections.Counter(r["verdict"] for r in recs))
    return out


def campaign(tier=None, seed=None, extra_progs=None, tag="rt"):
    tier = tier or vlib.tier()
    seed = vlib.seed() if seed is None else seed
    os.makedirs(os.path.join(vlib.WORKROOT, "cache"), exist_ok=True)
    vlib.build(("vdrive",))
    key = "%s-%s-%s-%d" % (tag, tree_key(), tier, seed)
    cpath = os.path.join(vlib.WORKROOT, "cache", key + ".json")
    lock = open(cpath + ".lock", "w")
    fcntl.flock(lock, fcntl.LOCK_EX)
    try:
        if os.path.exists(cpath):
            return json.load(open(cpath))
        t0 = time.time()
        res = _campaign(tier, seed, extra_progs)
        res["wall"] = time.time() - t0
        res["key"] = key
        json.dump(res, open(cpath + ".tmp", "w"))
        os.replace(cpath + ".tmp", cpath)
        return res
    finally:
        fcntl.flock(lock, fcntl.LOCK_UN)
        lock.close()


def _campaign(tier, seed, extra_progs):
    with vlib.Work("rt") as work:
        progs = fixed_corpus() + (extra_progs or []) + pgen_programs(tier, seed)
        try:
            import gen
            t1 = time.time()
            progs += gen.generated_programs(tier, seed, work)
            gen_time = time.time() - t1
        except ImportError:
            pass
        tm = {}
        t1 = time.time()
        frontend(progs)
        cfgs = matrix(tier, seed)
        tm["frontend"] = time.time() - t1; t1 = time.time()
        runs = real_runs(progs, cfgs)
        tm["real_runs"] = time.time() - t1; t1 = time.time()
        # a program one of whose runs did not quiesce within the bound is treated as non-terminating: only C01 is judged on it
        nonterm = {r["prog"] for r in runs if r["nonterminating"] or r["hang"]}
        for p in progs:
            if p["name"] in nonterm:
                p["terminates"] = False
        for r in runs:
            if r["prog"] in nonterm:
                r["nonterminating"] = True
                r["events"] = []
        runnable = [p for p in progs if p["runnable"] and p.get("terminates")]
        # size estimate from the real runs: processes ever spawned
        size = collections.defaultdict(int)
        for r in runs:
            if r["pcount"]:
                size[r["prog"]] = max(size[r["prog"]], r["pcount"])
        limit = 16 if tier == "quick" else 22
        small = [p for p in runnable if 0 < size[p["name"]] <= limit and not p.get("wide")]
        # of the wide (generated) programs only a few small ones are explored exhaustively
        wsmall = [p for p in runnable if p.get("wide") and 0 < size[p["name"]] <= (10 if tier == "quick" else 14)]
        small += wsmall[:8 if tier == "quick" else 60]
        # expected outcome of every interleaving: the reference semantics' bag when available,
        # else the bag the first real polarized run printed
        expect = {}
        # (fallback when the reference semantics has no answer: the multiset most of the program's polarized runs printed - never a single run)
        votes = collections.defaultdict(collections.Counter)
        for r in runs:
            if r["mode"] in ("async", "sync") and r["prints"] is not None and not r["crash"] and not r["hang"] and not r["late"]:
                votes[r["prog"]][tuple(sorted(r["prints"]))] += 1
        for name_, cnt in votes.items():
            expect[name_] = {"bag": list(cnt.most_common(1)[0][0]), "unique": True, "from": "real-runs-majority"}
        import sax
        saxexp = sax.expected_bags(runnable, work, tier)
        expect.update({n: e for n, e in saxexp.items() if e["unique"]})
        # confirmation: a run whose printed multiset differs from the reference is repeated three times in fresh processes; the checks report a
        # deviation only if it shows again (a single starved run on a loaded machine must not raise an alarm; a crash needs no confirmation)
        byname_ = {p["name"]: p for p in progs}
        cfree_ = {p["name"]: contraction_free(p["dump"]) for p in runnable}
        def refbag(name_):
            e_ = saxexp.get(name_)
            if e_ and e_["unique"] and not e_["sax_err"] and not e_["sax_left"]:
                return sorted(e_["bag"])
            return sorted(expect[name_]["bag"]) if name_ in expect else None
        def deviates(name_, mode_, prints_):
            ref = refbag(name_)
            if ref is None:
                return False
            if mode_ == "np" and not cfree_.get(name_):
                # eager copies may only add repetitions (the bound C04 applies to the non-polarized version on programs with contraction)
                want, got = collections.Counter(ref), collections.Counter(prints_)
                return set(want) != set(got) or any(got[l] < want[l] for l in want)
            return sorted(prints_) != ref
        def stuck(mode_, blocked_):
            # (C02's reading of the blocked set: in the synchronous version a sender parked after its send is not stuck)
            return mode_ != "np" and any(mode_ == "async" or b.get("last") != "send" for b in blocked_ or [])
        suspects = [r for r in runs if r["prints"] is not None and not r["crash"] and not r["hang"] and not r["nonterminating"] and not r["late"]
                    and (deviates(r["prog"], r["mode"], r["prints"]) or stuck(r["mode"], r.get("blocked")))]
        suspects.sort(key=lambda r: (not stuck(r["mode"], r.get("blocked")), r["id"]))
        def rerun_jobs(r):
            return [{"id": "%s#c%d" % (r["id"], k), "text": byname_[r["prog"]]["text"], "mode": r["mode"], "typecheck": True, "execute": True, "monitor": bool(r["monitor"]),
                     "subscriber": bool(r.get("subscriber")), "gomaxprocs": r["gomaxprocs"], "seed": r["seed"] + k + 1, "yield": r["yield"], "trace": True, "dump": False,
                     "max_ms": 30000, "max_events": 30000} for k in range(3)]
            # the repetitions wait 3 s without any hook event before they let the interpreter declare quiescence: a process that has not moved by
            # then is stuck, not starved, so the structural "could still move" filter is not applied to them
        # (three driver processes at a time: the repetitions must not be starved themselves)
        rrall = vlib.run_jobs(os.path.join(vlib.BUILD, "vdrive"), [j for r in suspects[:60] for j in rerun_jobs(r)], batch=1, timeout=90, parallel=3,
                              extra_env={"VERIF_SETTLE_MS": "3000"})
        for r in suspects[:60]:
            rr = {k: x for k, x in rrall.items() if k.startswith(r["id"] + "#c")}
            valid = [x for x in rr.values() if not x.get("crash") and not x.get("hang") and not x.get("timeout") and not x.get("late")]
            r["reruns"] = len(valid)
            ndev = sum(1 for x in valid if deviates(r["prog"], r["mode"], x.get("prints") or []) or stuck(r["mode"], x.get("blocked"))) + sum(1 for x in rr.values() if x.get("crash"))
            # confirmed = the deviation shows again in at least two of the three careful repetitions (run one at a time, 3 s settle time)
            r["confirm"] = 1 if ndev >= 2 else 0
            r["deviating_reruns"] = ndev
        for r in suspects[60:]:
            r["reruns"], r["confirm"], r["unrepeated"] = 0, 0, True      # beyond the repetition budget: not judged by the checks on printed results
        exh = exhaustive(small, work, timeout=300 if tier == "quick" else 1500,
                         expect={n: e["bag"] for n, e in expect.items() if e.get("unique")})
        tm["exhaustive"] = time.time() - t1; t1 = time.time()
        exhnp = exhaustive_np([p for p in small if contraction_free(p["dump"])], work, timeout=200 if tier == "quick" else 900,
                              expect={n: e["bag"] for n, e in expect.items() if e.get("unique")})
        tm["exhaustive_np"] = time.time() - t1; t1 = time.time()
        widenames = [p["name"] for p in progs if p.get("wide")]
        keep = set(widenames[:25 if tier == "quick" else 200])
        vruns = [r for r in runs if r["prog"] not in set(widenames) - keep]
        val = validate_traces(progs, vruns, work, max_events=1200 if tier == "quick" else 5000)
        tm["validate"] = time.time() - t1; t1 = time.time()
        val["selftest"] = binding_selftest(progs, runs, work)
        tm["selftest"] = time.time() - t1; t1 = time.time()
        valnp = validate_traces(progs, vruns, work, max_events=1200 if tier == "quick" else 5000, np=True)
        valnp["selftest"] = binding_selftest(progs, runs, work, np=True)
        tm["validate_np"] = time.time() - t1; t1 = time.time()
        own = validate_ownership(vruns, work)
        tm["ownership"] = time.time() - t1; t1 = time.time()
        rep = replay_stage(progs, [p["name"] for p in small], work, tier, seed)
        tm["replay"] = time.time() - t1
        rejq = {x["id"] for x in val["rejected"] + valnp["rejected"] if x.get("event") and x["event"].get("e") == "quiesce"}
        for r in runs:
            r["premature"] = bool(r["events"]) and (r["id"] in rejq or premature_quiescence(r["events"], r["mode"])) and not r.get("confirm", 0) >= 1
            r["nevents"] = len(r["events"])
            r["events"] = r["events"][:0]
        # a run that looks cut short (some process could still move when the heartbeat timed out) is repeated ONCE with a settle time of 3 s: the
        # repetition is what gets judged - if processes that could move still have not moved after 3 s without any event, they are stuck, not starved
        prem = [r for r in runs if r["premature"] and not r["crash"]][:150]
        if prem:
            jobs = [{"id": r["id"] + "#settle", "text": byname_[r["prog"]]["text"], "mode": r["mode"], "typecheck": True, "execute": True, "monitor": bool(r["monitor"]),
                     "subscriber": bool(r.get("subscriber")), "gomaxprocs": r["gomaxprocs"], "seed": r["seed"], "yield": r["yield"], "trace": True, "dump": False,
                     "max_ms": 15000, "max_events": 30000} for r in prem]
            rr = vlib.run_jobs(os.path.join(vlib.BUILD, "vdrive"), jobs, batch=1, timeout=60, parallel=8, extra_env={"VERIF_SETTLE_MS": "3000"})
            for r in prem:
                x = rr.get(r["id"] + "#settle") or {}
                if x.get("hang") or x.get("timeout") or x.get("overflow") or x.get("late") or x.get("prints") is None:
                    continue
                if not x.get("crash") and premature_quiescence(x.get("events") or [], r["mode"]):
                    continue      # (still cut short although nothing happened for 3 s: left unjudged)
                r["premature"] = False
                r["resettled"] = True
                r["crash"] = x.get("crash")
                r["prints"], r["blocked"] = x.get("prints"), x.get("blocked")
        tm["resettle"] = len(prem)
        # reference semantics: confluence of the reference on the small programs, and every observed print sequence
        t1 = time.time()
        saxconf = sax.confluence(small, {n: e for n, e in saxexp.items() if e["unique"]}, work, timeout=300 if tier == "quick" else 1200)
        tm["sax_confluence"] = time.time() - t1; t1 = time.time()
        cfree = {p["name"]: contraction_free(p["dump"]) for p in runnable}
        obs = [{"id": r["id"], "prog": r["prog"], "prints": r["prints"]} for r in runs
               if r["prints"] is not None and not r["crash"] and not r["hang"] and not r["late"] and not r["nonterminating"] and not r["premature"]
               and r["prog"] in saxexp and (r["mode"] != "np" or cfree.get(r["prog"])) and len(r["prints"]) <= (40 if tier == "quick" else 120)]
        saxval = sax.validate_orders(runnable, obs, work) if obs else {"observations": 0, "accepted": 0, "rejected": [], "errors": [], "states": 0}
        saxval["selftest"] = sax.selftest(runnable, obs, work)
        tm["sax_orders"] = time.time() - t1
        return {"tier": tier, "seed": seed,
                "progs": [{k: p.get(k) for k in ("name", "src", "fe", "accepted", "closed", "runnable", "text", "ast", "scheme", "wide", "ids", "mutation")} | {
                    "cfree": contraction_free(p["dump"]) if p.get("dump") else None, "size": size.get(p["name"], 0)} for p in progs],
                "runs": runs, "nonterminating": [p["name"] for p in progs if p["runnable"] and not p.get("terminates")], "exhaustive": exh, "small": [p["name"] for p in small], "validation": val, "validation_np": valnp, "expect": expect,
                "matrix": [list(c) for c in cfgs], "timing": tm, "ownership": own, "replay": rep, "exhaustive_np": exhnp, "sax": saxexp, "sax_confluence": saxconf, "sax_orders": saxval}


if __name__ == "__main__":
    r = campaign()
    print(json.dumps({k: v for k, v in r.items() if k not in ("progs", "runs")}, indent=1)[:6000])
    crashes = [x["id"] for x in r["runs"] if x["crash"]]
    print("crashes", crashes[:10])
