#!/usr/bin/env python3
"""prints the markdown table 'which checks catch which seeded change' from /verif/seeded/*/meta.json"""
import json, glob, os
rows = []
for d in sorted(glob.glob(os.path.join(os.path.dirname(os.path.dirname(os.path.abspath(__file__))), "seeded", "*"))):
    if not os.path.exists(os.path.join(d, "meta.json")):
        continue
    m = json.load(open(os.path.join(d, "meta.json")))
    ch = m.get("checks", {})
    caught = sorted(c for c, r in ch.items() if r.get("exit") == 1 and any(l.startswith("VIOLATION") for l in r.get("lines", [])))
    missed = sorted(c for c, r in ch.items() if c not in caught and r.get("exit") in (0, 1))
    broken = sorted(c for c, r in ch.items() if r.get("exit") == 2)
    summ = (m.get("summary") or "").replace("|", "/").replace("\n", " ")
    summ = summ[:230] + ("..." if len(summ) > 230 else "")
    needs = (m.get("needs") or "").replace("|", "/").replace("\n", " ")
    needs = needs[:170] + ("..." if len(needs) > 170 else "")
    rows.append("| `%s` | %s | %s | %s | %s |" % (os.path.basename(d), m.get("property"), summ, needs,
                ("**" + ", ".join(caught) + "**" if caught else "-") + (" (not by: " + ", ".join(missed) + ")" if missed else "") + (" (harness error: " + ", ".join(broken) + ")" if broken else "")))
print("| seed | property | change | needs | caught by (quick tier) |\n|---|---|---|---|---|")
print("\n".join(rows))
