"""Programs from Gen.tla: TLC enumerates / samples typing derivations (and single mutations of them),
this module rebuilds the terms from the pre-order rule lists and renders Grits text."""
import json, os, random, hashlib
import vlib

GEN_CFG = """SPECIFICATION Spec
CONSTANTS
  Family = "%(family)s"
  Budget = %(budget)d
  MaxProcs = %(procs)d
  MaxFuns = %(funs)d
  WithMut = %(mut)s
  EmitOn = TRUE
INVARIANTS GoalsIndependent EmitDone
CHECK_DEADLOCK FALSE
"""


# ----------------------------------------------------------------------------- types
def mode_of(t):
    return t["to"] if t["k"] in ("up", "down") else t["mode"]


def ty_body(t):
    k = t["k"]
    if k == "unit":
        return "1"
    if k == "name":
        return t["name"]
    if k == "send":
        return "(%s * %s)" % (ty_body(t["l"]), ty_body(t["r"]))
    if k == "recv":
        return "(%s -* %s)" % (ty_body(t["l"]), ty_body(t["r"]))
    if k in ("sel", "bra"):
        return ("+" if k == "sel" else "&") + "{" + ", ".join("%s : %s" % (b["label"], ty_body(b["t"])) for b in t["br"]) + "}"
    if k == "up":
        return "(%s /\\ %s %s)" % (t["from"], t["to"], ty_body(t["t"]))
    if k == "down":
        return "(%s \\/ %s %s)" % (t["from"], t["to"], ty_body(t["t"]))
    raise ValueError(k)


def ty_text(t):
    """a type annotation: head mode written unless it is a name, a shift, or replicable"""
    if t["k"] in ("name", "up", "down"):
        return ty_body(t)
    m = mode_of(t)
    return ty_body(t) if m == "rep" else "%s %s" % (m, ty_body(t))


# ----------------------------------------------------------------------------- terms
class Builder:
    def __init__(self, pre, tag, prints=True, rename=None):
        self.rename = rename  # (record index (0-based), from, to): consistent renaming of a binder and its uses
        self.pre = pre
        self.i = 0
        self.tag = tag
        self.prints = prints
        self.np = 0
        self.selfname_at = None

    def pr(self):
        if not self.prints:
            return ""
        self.np += 1
        return "print %s_%d; " % (self.tag, self.np)

    def leaf(self, r):
        k = r["r"]
        if k == "1R":
            return "close %s" % r["a"]
        if k == "*R":
            return "send %s<%s, %s>" % (r["a"], r["b"], r["c"])
        if k == "+R":
            return "%s.%s<%s>" % (r["a"], r["l"], r["b"])
        if k == "dR":
            return "cast %s<%s>" % (r["a"], r["b"])
        if k == "id":
            return "fwd %s %s" % (r["a"], r["b"])
        if k == "-oL":
            return "send %s<%s, %s>" % (r["a"], r["b"], r["c"])
        if k == "&L":
            return "%s.%s<%s>" % (r["a"], r["l"], r["b"])
        if k == "uL":
            return "cast %s<%s>" % (r["a"], r["b"])
        if k in ("call", "call-arity"):
            return "%s(%s)" % (r["f"], ", ".join(r["args"]))
        raise ValueError("leaf " + k)

    def term(self):
        if self.rename and self.rename[0] == self.i:
            _, frm, to = self.rename
            self.rename = None
            import re as _re
            return _re.sub(r"(?<![A-Za-z0-9_'])%s(?![A-Za-z0-9_'])" % _re.escape(frm), to, self.term())
        r = self.pre[self.i]
        self.i += 1
        k = r["r"]
        if r["n"] == 0:
            return self.pr() + self.leaf(r)
        if k == "skip":
            return self.term()
        if k == "-oR":
            return self.pr() + "<%s, %s> <- recv %s; %s" % (r["a"], r["b"], r["c"], self.term())
        if k in ("&R", "&R-missing", "&R-dup", "+L", "+L-missing", "+L-dup"):
            subs = [self.term() for _ in range(r["n"])]
            labels = list(r["args"])
            brs = ["%s<%s> => %s" % (l, r["b"], s) for l, s in zip(labels, subs)]
            if k.endswith("-missing"):
                brs = brs[:-1]
            if k.endswith("-dup"):
                brs = brs + [brs[0]]
            return self.pr() + "case %s ( %s )" % (r["a"], " | ".join(brs))
        if k == "uR":
            return self.pr() + "%s <- shift %s; %s" % (r["a"], r["b"], self.term())
        if k == "1L":
            return self.pr() + "wait %s; %s" % (r["a"], self.term())
        if k == "1Lx2":
            return self.pr() + "wait %s; wait %s; %s" % (r["a"], r["a"], self.term())
        if k == "splitwait":
            return self.pr() + "<m1, m2> <- split %s; wait m1; wait m2; %s" % (r["a"], self.term())
        if k == "*L":
            return self.pr() + "<%s, %s> <- recv %s; %s" % (r["a"], r["b"], r["c"], self.term())
        if k == "dL":
            return self.pr() + "%s <- shift %s; %s" % (r["a"], r["b"], self.term())
        if k == "drop":
            return self.pr() + "drop %s; %s" % (r["a"], self.term())
        if k == "split":
            return self.pr() + "<%s, %s> <- split %s; %s" % (r["a"], r["b"], r["c"], self.term())
        if k == "cut":
            body = self.leaf(r["aux"][0])
            if self.selfname_at is not None and self.selfname_at[0] == self.i - 1:
                # (shadowing mutant) the spawned body names its provider by the cut's new name
                import re as _re
                body = _re.sub(r"\bself\b", self.selfname_at[1], body)
            ann = "" if r["t"]["k"] == "none" else " : " + ty_text(r["t"])
            return self.pr() + "%s%s <- new %s; %s" % (r["a"], ann, body, self.term())
        raise ValueError("rule " + k)


def render(prog, prints=True):
    lines = []
    for d in prog["env"]:
        t = d["t"]
        lines.append("type %s = %s" % (d["name"], ty_text(t)))
    decls = [dict(d) for d in prog["decls"]]
    mut = prog.get("mut") or None
    renames = {}
    selfnames = {}
    if mut and mut["kind"] == "shadow-binder":
        d = decls[mut["d"] - 1]
        if mut.get("skip"):
            pre = list(d["pre"])
            pre[mut["skip"] - 1] = dict(pre[mut["skip"] - 1], r="skip")
            d["pre"] = pre
        old = d["pre"][mut["k"] - 1]
        new = mut["rec"]
        frm, to = (old["b"], new["b"]) if old["r"] in ("+L", "&R") else (old["a"], new["a"])
        renames[mut["d"] - 1] = (mut["k"] - 1, frm, to)
        if old["r"] == "cut" and old["aux"][0]["r"] not in ("call", "call-arity") and (len(json.dumps(prog, sort_keys=True)) % 2 == 0):
            selfnames[mut["d"] - 1] = (mut["k"] - 1, to)
    elif mut:
        d = decls[mut["d"] - 1]
        if mut["k"] == 0:
            if "names" in mut["rec"]:
                d["names"] = mut["rec"]["names"]
            elif d["kind"] == "prc":
                d["t"] = mut["rec"]["t"]
            else:
                d["sig"] = dict(d["sig"], ret=mut["rec"]["t"])
        else:
            pre = list(d["pre"])
            pre[mut["k"] - 1] = mut["rec"]
            d["pre"] = pre
    for idx, d in enumerate(decls):
        b = Builder(d["pre"], "p%d" % (idx + 1), prints, renames.get(idx))
        b.selfname_at = selfnames.get(idx)
        body = b.term()
        if d["kind"] == "fun":
            s = d["sig"]
            if s["expl"]:
                ps = ", ".join(["%s : %s" % (s["expl"], ty_text(s["ret"]))] + ["%s : %s" % (p["id"], ty_text(p["t"])) for p in s["params"]])
                lines.append("let %s[%s] = %s" % (s["name"], ps, body))
            else:
                ps = ", ".join("%s : %s" % (p["id"], ty_text(p["t"])) for p in s["params"])
                lines.append("let %s(%s) : %s = %s" % (s["name"], ps, ty_text(s["ret"]), body))
        else:
            lines.append("prc[%s] : %s = %s" % (", ".join(d["names"]), ty_text(d["t"]), body))
    return "\n".join(lines) + "\n"


# ----------------------------------------------------------------------------- running TLC
def run_gen(work, family, budget, procs, funs, mut, num, depth, sd, simulate=True, timeout=600):
    out = work.path("gen_%s_%d_%d_%d_%s_%d.ndjson" % (family, budget, procs, funs, mut, sd))
    if os.path.exists(out):
        os.remove(out)
    cfg = GEN_CFG % {"family": family, "budget": budget, "procs": procs, "funs": funs, "mut": "TRUE" if mut else "FALSE"}
    extra = ("-simulate", "num=%d" % num, "-depth", str(depth), "-seed", str(sd)) if simulate else ()
    r = vlib.tlc("Gen", cfg, env={"VERIF_OUT": out}, workers=1, timeout=timeout, work=work, extra=extra)
    progs, seen = [], set()
    if os.path.exists(out):
        for line in open(out):
            line = line.strip()
            if not line:
                continue
            try:
                d = json.loads(line)
                if isinstance(d, str):
                    d = json.loads(d)
            except ValueError:
                continue
            key = hashlib.sha1(json.dumps(d, sort_keys=True).encode()).hexdigest()
            if key in seen:
                continue
            seen.add(key)
            if isinstance(d.get("mut"), list) and not d["mut"]:
                d["mut"] = None
            progs.append(d)
    return r, progs


def plans(tier, seed):
    """(family, budget, procs, funs, with-mutation, num walks, depth)"""
    if tier == "quick":
        return [("basic", 7, 2, 1, False, 400, 70), ("basic", 9, 3, 2, False, 300, 110), ("modes", 8, 3, 1, False, 400, 90),
                ("basic", 7, 2, 1, True, 500, 80), ("modes", 8, 2, 1, True, 500, 80)]
    return [("basic", 7, 2, 1, False, 3000, 70), ("basic", 10, 3, 2, False, 3000, 130), ("basic", 12, 4, 2, False, 1500, 200),
            ("modes", 8, 3, 1, False, 3000, 90), ("modes", 11, 4, 2, False, 2000, 160),
            ("basic", 8, 3, 2, True, 4000, 110), ("modes", 9, 3, 2, True, 4000, 110)]


_cache = {}


def generate(tier, seed, work):
    key = (tier, seed)
    if key in _cache:
        return _cache[key]
    import concurrent.futures
    out = []
    stats = {"states": 0, "generated": 0, "plans": []}

    def one(ip):
        i, p = ip
        fam, budget, procs, funs, mut, num, depth = p
        r, progs = run_gen(work, fam, budget, procs, funs, mut, num, depth, seed * 100 + i)
        return i, p, r, progs

    with concurrent.futures.ThreadPoolExecutor(max_workers=8) as ex:
        for i, p, r, progs in ex.map(one, list(enumerate(plans(tier, seed)))):
            m = None
            import re
            mm = re.search(r"The number of states generated: (\d+)", r["out"])
            st = int(mm.group(1)) if mm else 0
            stats["states"] += st
            stats["generated"] += st
            stats["plans"].append({"plan": list(p), "programs": len(progs), "states": st, "ok": "Error" not in r["out"][-2000:]})
            if r["violated"]:
                stats.setdefault("errors", []).append("Gen invariant %s violated" % r["violated"])
            if "Parsing or semantic analysis failed" in r["out"] or (not progs and not r["timeout"]):
                import re as _re
                m = _re.search(r"(Semantic errors:.*|Error: .*)", r["out"], _re.S)
                stats.setdefault("errors", []).append("Gen.tla plan %s produced nothing: %s" % (list(p), (m.group(1) if m else r["out"][-300:])[:400]))
            for k, g in enumerate(progs):
                try:
                    text = render(g)
                except Exception as e:  # rendering bug = harness error, not a verdict
                    stats.setdefault("errors", []).append("render: %r" % e)
                    continue
                mut = g.get("mut")
                out.append({"name": "gen/%s-%d-%d" % (p[0], i, k), "text": text, "src": "Gen.tla", "family": p[0],
                            "expect": "reject" if mut else "accept", "mut": {"kind": mut["kind"], "class": mut["class"]} if mut else None,
                            "plain": render(g, prints=False)})
    # de-duplicate by text
    seen, uniq = set(), []
    for o in out:
        if o["text"] not in seen:
            seen.add(o["text"])
            uniq.append(o)
    _cache[key] = (uniq, stats)
    return uniq, stats


def generated_programs(tier, seed, work):
    """well-typed generated programs for the runtime campaign (bounded number, deterministic for the seed)"""
    progs, _ = generate(tier, seed, work)
    good = [p for p in progs if p["expect"] == "accept"]
    rng = random.Random(seed)
    rng.shuffle(good)
    limit = 40 if tier == "quick" else 400
    return [dict(name=p["name"], text=p["text"], src="generated") for p in good[:limit]]


if __name__ == "__main__":
    import sys
    with vlib.Work("gen") as w:
        ps, st = generate(vlib.tier(), vlib.seed(), w)
        print(json.dumps(st, indent=1))
        print(len(ps), "programs")
        for p in ps[:3] + [q for q in ps if q["mut"]][:3]:
            print("-----", p["name"], p["expect"], p["mut"])
            print(p["text"])
