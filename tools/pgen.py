"""Type-directed generator of well-typed, INTERACTING Grits programs for the runtime properties (C01-C04, C13, C14).

A program is generated as an abstract syntax tree whose binders are unique integers; a NAMING SCHEME turns binder
ids into spellings at rendering time.  All renderings of one tree are alpha-equivalent (and declaration order is free),
so they must get the same verdict and the same printed multiset (C14); the coincidence-rich schemes ("local", "reuse",
"clash") are the ones that stress identifier handling at run time.  The expected outcome of every program is decided
by the TLA+ specifications (Sax.tla reference semantics, GritsRT.tla), never by this generator; programs the real
typechecker rejects are simply not used for the runtime campaign (they are reported, since every tree is meant to be
well-typed)."""
import random

UNIT = "1"


class Prog:
    def __init__(self, rng, lin=False):
        self.rng = rng
        self.lin = lin              # linear variant: no drop / split
        self.types = {}             # name -> structural type
        self.funcs = []             # [{name, params:[(id, T)], ret:T, body, expl:bool}]
        self.procs = []             # [{names:[str], T, body}]
        self.nid = 0
        self.nprint = 0
        self.nfun = 0
        self.splits = 0
        self.helpers = {}

    def fresh(self):
        self.nid += 1
        return self.nid

    def label(self):
        self.nprint += 1
        return "q%d" % self.nprint

    def unfold(self, t):
        return self.types[t] if t in self.types else t


# ----------------------------------------------------------------------------- types
def make_types(P, n):
    rng = P.rng
    P.types["N"] = ("+", [("z", UNIT), ("s", "N")])
    names = []
    for i in range(n):
        avail = [UNIT, UNIT, "N"] + names
        k = rng.choice(["*", "-*", "+", "&", "*", "-*"])
        if k in ("*", "-*"):
            t = (k, rng.choice(avail), rng.choice(avail))
        else:
            nb = rng.choice([1, 2, 2, 3])
            t = (k, [("l%d" % j, rng.choice(avail)) for j in range(nb)])
        nm = "T%d" % i
        P.types[nm] = t
        names.append(nm)
    return names


def positive(P, t):
    u = P.unfold(t)
    return u == UNIT or u[0] in ("*", "+")


# ----------------------------------------------------------------------------- library: mk_T / eat_T per type
def fn_mk(P, t):
    """name of a function () -> t, created on demand"""
    key = ("mk", t)
    if key in P.helpers:
        return P.helpers[key]
    name = "mk%s" % ("U" if t == UNIT else t)
    P.helpers[key] = name
    f = {"name": name, "params": [], "ret": t, "body": None, "gen": "lib"}
    P.funcs.append(f)
    u = P.unfold(t)
    pr = lambda k: ("print", P.label(), k)
    if u == UNIT:
        body = pr(("close",))
    elif t == "N":
        # a fixed numeral: s(s(z))
        a, b, c = P.fresh(), P.fresh(), P.fresh()
        body = ("new", a, UNIT, ("close",), ("new", b, "N", ("sel", "self", "z", a), ("new", c, "N", ("sel", "self", "s", b), pr(("sel", "self", "s", c)))))
    elif u[0] == "*":
        a, b = P.fresh(), P.fresh()
        body = pr(("new", a, None, ("call", fn_mk(P, u[1]), []), ("new", b, None, ("call", fn_mk(P, u[2]), []), ("send", "self", a, b))))
    elif u[0] == "-*":
        a, b, e = P.fresh(), P.fresh(), P.fresh()
        body = ("recv", a, b, "self", pr(("new", e, None, ("call", fn_eat(P, u[1]), [a]), ("wait", e, ("call", fn_mk(P, u[2]), [])))))
    elif u[0] == "+":
        l, at = u[1][P.rng.randrange(len(u[1]))]
        c = P.fresh()
        body = pr(("new", c, None, ("call", fn_mk(P, at), []), ("sel", "self", l, c)))
    else:
        body = pr(("case", "self", [(l, P.fresh(), ("print", P.label(), ("call", fn_mk(P, at), []))) for l, at in u[1]]))
    f["body"] = body
    return name


def fn_eat(P, t):
    """name of a function (x : t) -> 1"""
    key = ("eat", t)
    if key in P.helpers:
        return P.helpers[key]
    name = "eat%s" % ("U" if t == UNIT else t)
    P.helpers[key] = name
    x = P.fresh()
    f = {"name": name, "params": [(x, t)], "ret": UNIT, "body": None, "gen": "lib"}
    P.funcs.append(f)
    u = P.unfold(t)
    pr = lambda k: ("print", P.label(), k)
    if u == UNIT:
        body = ("wait", x, pr(("close",)))
    elif u[0] == "*":
        a, b, e = P.fresh(), P.fresh(), P.fresh()
        body = ("recv", a, b, x, pr(("new", e, None, ("call", fn_eat(P, u[1]), [a]), ("wait", e, ("call", fn_eat(P, u[2]), [b])))))
    elif u[0] == "-*":
        p, y = P.fresh(), P.fresh()
        body = pr(("new", p, None, ("call", fn_mk(P, u[1]), []), ("new", y, u[2], ("send", x, p, "self"), ("call", fn_eat(P, u[2]), [y]))))
    elif u[0] == "+":
        brs = []
        for l, at in u[1]:
            c = P.fresh()
            brs.append((l, c, ("print", P.label(), ("call", fn_eat(P, at), [c]))))
        body = ("case", x, brs)
    else:
        l, at = u[1][P.rng.randrange(len(u[1]))]
        y = P.fresh()
        body = pr(("new", y, at, ("sel", x, l, "self"), ("call", fn_eat(P, at), [y])))
    f["body"] = body
    return name


# ----------------------------------------------------------------------------- random terms
def gen_helper(P, params, ret, fuel):
    P.nfun += 1
    name = "h%d" % P.nfun
    f = {"name": name, "params": list(params), "ret": ret, "body": None, "gen": "rand"}
    P.funcs.append(f)
    f["body"] = prov(P, ret, list(params), fuel)
    return name


def consume_all(P, ctx, k):
    """wrap k with eliminations of every channel in ctx"""
    rng = P.rng
    for (x, t) in reversed(ctx):
        if not P.lin and rng.random() < 0.4:
            k = ("drop", x, k)
        elif t == UNIT:
            k = ("wait", x, k)
        else:
            e = P.fresh()
            k = ("new", e, None, ("call", fn_eat(P, t), [x]), ("wait", e, k))
    return k


def obtain(P, t, ctx):
    """a channel of type t: one from ctx (removed) or a fresh cut; returns (id, ctx', wrap)"""
    rng = P.rng
    cands = [i for i, (x, tx) in enumerate(ctx) if tx == t]
    if cands and rng.random() < 0.7:
        i = rng.choice(cands)
        x = ctx[i][0]
        return x, ctx[:i] + ctx[i + 1:], (lambda k: k)
    a = P.fresh()
    ann = t if rng.random() < 0.5 else None
    return a, ctx, (lambda k: ("new", a, ann, ("call", fn_mk(P, t), []), k))


def finish(P, T, ctx):
    """provide T now, consuming exactly ctx"""
    rng = P.rng
    u = P.unfold(T)
    if len(ctx) == 1 and ctx[0][1] == T and rng.random() < 0.5:
        return ("fwd", ctx[0][0])
    r = rng.random()
    if r < 0.3 and ctx:
        # hand everything to a generated helper (tail call)
        h = gen_helper(P, ctx, T, 0)
        return ("call", h, [x for x, _ in ctx])
    if u == UNIT:
        return consume_all(P, ctx, ("close",))
    if r < 0.55 or T == "N":
        return consume_all(P, ctx, ("call", fn_mk(P, T), []))
    if u[0] == "*":
        a, ctx1, w1 = obtain(P, u[1], ctx)
        b, ctx2, w2 = obtain(P, u[2], ctx1)
        return consume_all(P, ctx2, w1(w2(("send", "self", a, b))))
    if u[0] == "+":
        l, at = u[1][rng.randrange(len(u[1]))]
        c, ctx1, w1 = obtain(P, at, ctx)
        return consume_all(P, ctx1, w1(("sel", "self", l, c)))
    if u[0] == "-*":
        a, b = P.fresh(), P.fresh()
        return ("recv", a, b, "self", finish(P, u[2], ctx + [(a, u[1])]))
    if u[0] == "&":
        return ("case", "self", [(l, P.fresh(), finish(P, at, list(ctx))) for l, at in u[1]])
    raise ValueError(u)


def prov(P, T, ctx, fuel):
    rng = P.rng
    if rng.random() < 0.45:
        return ("print", P.label(), prov2(P, T, ctx, fuel))
    return prov2(P, T, ctx, fuel)


def prov2(P, T, ctx, fuel):
    rng = P.rng
    if fuel <= 0:
        return finish(P, T, ctx)
    u = P.unfold(T)
    acts = []
    if ctx:
        acts += ["L"] * 5
        if len(ctx) >= 1:
            acts += ["helper"] * 2
    if not positive(P, T):
        acts += ["R"] * 3
    acts += ["cut"] * 1 + ["finish"] * 1
    a = rng.choice(acts)
    if a == "finish":
        return finish(P, T, ctx)
    if a == "cut":
        ts = [UNIT, "N"] + [n for n in P.types if n != "N"]
        t = rng.choice(ts)
        x = P.fresh()
        return ("new", x, t if rng.random() < 0.5 else None, ("call", fn_mk(P, t), []), prov(P, T, ctx + [(x, t)], fuel - 1))
    if a == "R":
        if u[0] == "-*":
            x, b = P.fresh(), P.fresh()
            return ("recv", x, b, "self", prov(P, u[2], ctx + [(x, u[1])], fuel - 1))
        return ("case", "self", [(l, P.fresh(), prov(P, at, list(ctx), (fuel - 1) // 2)) for l, at in u[1]])
    if a == "helper":
        k = rng.randint(1, min(3, len(ctx)))
        idx = sorted(rng.sample(range(len(ctx)), k))
        sub = [ctx[i] for i in idx]
        rest = [c for i, c in enumerate(ctx) if i not in idx]
        ts = [UNIT, "N"] + [n for n in P.types if n != "N"]
        t = rng.choice(ts)
        h = gen_helper(P, sub, t, max(0, fuel // 2))
        y = P.fresh()
        return ("new", y, t if rng.random() < 0.3 else None, ("call", h, [x for x, _ in sub]), prov(P, T, rest + [(y, t)], fuel - 1))
    # L: eliminate a channel of the context
    i = rng.randrange(len(ctx))
    x, tx = ctx[i]
    rest = ctx[:i] + ctx[i + 1:]
    ux = P.unfold(tx)
    r = rng.random()
    if not P.lin and r < 0.12:
        return ("drop", x, prov(P, T, rest, fuel - 1))
    if not P.lin and r < 0.30 and P.splits < 3:
        P.splits += 1
        a1, a2 = P.fresh(), P.fresh()
        return ("split", a1, a2, x, prov(P, T, rest + [(a1, tx), (a2, tx)], fuel - 1))
    if r > 0.9:
        e = P.fresh()
        return ("new", e, None, ("call", fn_eat(P, tx), [x]), prov(P, T, rest + [(e, UNIT)], fuel - 1))
    if ux == UNIT:
        return ("wait", x, prov(P, T, rest, fuel - 1))
    if ux[0] == "*":
        a1, a2 = P.fresh(), P.fresh()
        return ("recv", a1, a2, x, prov(P, T, rest + [(a1, ux[1]), (a2, ux[2])], fuel - 1))
    if ux[0] == "-*":
        p, rest2, w = obtain(P, ux[1], rest)
        y = P.fresh()
        return w(("new", y, ux[2], ("send", x, p, "self"), prov(P, T, rest2 + [(y, ux[2])], fuel - 1)))
    if ux[0] == "+":
        brs = []
        for l, at in ux[1]:
            c = P.fresh()
            brs.append((l, c, prov(P, T, rest + [(c, at)], (fuel - 1) // 2)))
        return ("case", x, brs)
    l, at = ux[1][rng.randrange(len(ux[1]))]
    y = P.fresh()
    return ("new", y, at, ("sel", x, l, "self"), prov(P, T, rest + [(y, at)], fuel - 1))


def drop_server_main(P, names, fuel):
    """directed shape: a negative server holding several dependencies (some of them negative servers themselves) is spawned by a
    helper, then dropped / split-and-dropped / split-and-used by its client: exercises the GC cascade and the DUP cascade over free names"""
    rng = P.rng
    neg = [n for n in names if not positive(P, n)]
    if not neg:
        P.types["TN"] = ("-*", UNIT, UNIT)
        names.append("TN"); neg = ["TN"]
    if len(neg) < 2:
        P.types["TB"] = ("&", [("l0", UNIT), ("l1", neg[0])])
        names.append("TB"); neg.append("TB")
    S = rng.choice(neg)
    deps = []
    for i in range(rng.randint(2, 3)):
        t = rng.choice(neg + neg + [UNIT, "N"] + names)
        deps.append((P.fresh(), t))
    # the server: waits on its own channel first, uses its dependencies afterwards
    params = [(P.fresh(), t) for _, t in deps]
    u = P.unfold(S)
    P.nfun += 1
    hname = "srv%d" % P.nfun
    f = {"name": hname, "params": params, "ret": S, "body": None, "gen": "rand"}
    P.funcs.append(f)
    if u[0] == "-*":
        a, b = P.fresh(), P.fresh()
        inner = ("recv", a, b, "self", prov(P, u[2], params + [(a, u[1])], fuel))
    else:
        inner = ("case", "self", [(l, P.fresh(), prov(P, at, list(params), fuel // 2)) for l, at in u[1]])
    # some local work before blocking, so that the server owns locally created channels too
    loc = P.fresh()
    lt = rng.choice(neg + [UNIT])
    f["body"] = ("new", loc, None, ("call", fn_mk(P, lt), []), ("print", P.label(), _with_ctx(inner, (loc, lt), P, u, params, fuel)))
    s = P.fresh()
    k = rng.randrange(4)
    if k == 0:
        tail = ("drop", s, ("print", P.label(), ("close",)))
    elif k == 1:
        s1, s2 = P.fresh(), P.fresh()
        e = P.fresh()
        tail = ("split", s1, s2, s, ("drop", s1, ("new", e, None, ("call", fn_eat(P, S), [s2]), ("wait", e, ("print", P.label(), ("close",))))))
    elif k == 2:
        s1, s2 = P.fresh(), P.fresh()
        e1, e2 = P.fresh(), P.fresh()
        tail = ("split", s1, s2, s, ("new", e1, None, ("call", fn_eat(P, S), [s1]), ("new", e2, None, ("call", fn_eat(P, S), [s2]),
                                     ("wait", e1, ("wait", e2, ("print", P.label(), ("close",)))))))
    else:
        h = gen_helper(P, [(P.fresh(), S)], UNIT, 0)
        # the helper's own body was generated for a fresh parameter id: regenerate it so that it drops its argument
        hf = next(x for x in P.funcs if x["name"] == h)
        hf["body"] = ("print", P.label(), ("drop", hf["params"][0][0], ("close",)))
        e = P.fresh()
        tail = ("new", e, None, ("call", h, [s]), ("wait", e, ("print", P.label(), ("close",))))
    body = ("new", s, S if rng.random() < 0.5 else None, ("call", hname, [d for d, _ in deps]), ("print", P.label(), tail))
    for d, t in reversed(deps):
        body = ("new", d, None, ("call", fn_mk(P, t), []), body)
    return body


def _with_ctx(inner, extra, P, u, params, fuel):
    """rebuild the server's blocking form so that the locally created channel is part of what it holds while blocked"""
    x, t = extra
    if inner[0] == "recv":
        _, a, b, frm, _K = inner
        return ("recv", a, b, frm, prov(P, u[2], params + [(a, u[1]), (x, t)], fuel))
    return ("case", "self", [(l, c, prov(P, at, list(params) + [(x, t)], fuel // 2)) for (l, c, _K), (_, at) in zip(inner[2], u[1])])


def generate(seed, fuel=6, lin=False, shape="random"):
    rng = random.Random(seed)
    P = Prog(rng, lin)
    names = make_types(P, rng.randint(2, 4))
    if shape == "dropserver" and not lin:
        main = drop_server_main(P, names, min(fuel, 3))
        P.procs = [{"names": ["main"], "T": UNIT, "body": main}]
        return P
    pool = ["pa", "pb", "pc", "pd", "pe"]
    ntop = rng.randint(1, 4)
    tops = []
    for i in range(ntop):
        t = rng.choice([UNIT, "N"] + names + names)
        nm = [pool[i]]
        tops.append((nm, t))
    # optional multi-name declaration (contraction at top level)
    if not lin and rng.random() < 0.25:
        tops[-1] = ([tops[-1][0][0], "pz"], tops[-1][1])
    # dependency forest: process i may use the names of processes j > i, each name used by at most one process
    avail = []
    bodies = []
    for i in reversed(range(len(tops))):
        use = [a for a in avail if rng.random() < 0.6]
        for a in use:
            avail.remove(a)
        ctx = [(("top", a[0]), a[1]) for a in use]
        bodies.append((tops[i], prov(P, tops[i][1], ctx, fuel)))
        for nm in tops[i][0]:
            avail.append((nm, tops[i][1]))
    # the main process consumes whatever is left
    ctx = [(("top", a[0]), a[1]) for a in avail]
    main = prov(P, UNIT, ctx, fuel)
    P.procs = [{"names": ["main"], "T": UNIT, "body": main}] + [{"names": t[0], "T": t[1], "body": b} for t, b in bodies]
    return P


# ----------------------------------------------------------------------------- ill-typed variants (for verdict invariance)
def _sites(term, path, acc):
    if not isinstance(term, tuple):
        return
    k = term[0]
    if k in ("wait", "drop"):
        acc.append((path, k))
    for i, x in enumerate(term):
        if isinstance(x, tuple):
            _sites(x, path + (i,), acc)
        elif isinstance(x, list) and k == "case":
            for j, br in enumerate(x):
                _sites(br[2], path + (i, j, 2), acc)


def _replace(term, path, fn):
    if not path:
        return fn(term)
    i = path[0]
    if isinstance(term, tuple):
        return term[:i] + (_replace(term[i], path[1:], fn),) + term[i + 1:]
    if isinstance(term, list):
        return term[:i] + [_replace(term[i], path[1:], fn)] + term[i + 1:]
    raise ValueError(term)


def mutate(P, seed):
    """remove one wait / drop from a randomly chosen declaration: its channel is then never consumed (no derivation under any naming)"""
    rng = random.Random(seed)
    decls = [("f", i) for i, f in enumerate(P.funcs)] + [("p", i) for i, p in enumerate(P.procs)]
    rng.shuffle(decls)
    for kind, i in decls:
        d = P.funcs[i] if kind == "f" else P.procs[i]
        acc = []
        _sites(d["body"], (), acc)
        if acc:
            path, k = rng.choice(acc)
            d["body"] = _replace(d["body"], path, lambda t: t[2])
            return "removed %s in %s" % (k, d.get("name") or d["names"][0])
    return None


# ----------------------------------------------------------------------------- rendering
LETTERS = ["x", "y", "z", "u", "v", "w2", "k", "m", "n", "r", "s2", "t", "c", "d", "e", "g", "a1", "b1", "c1", "d1", "e1", "g1", "k1", "m1", "n1", "r1"]


class Namer:
    """binder id -> spelling.  scheme: unique | local | reuse | clash"""

    def __init__(self, scheme, rng, P):
        self.scheme, self.rng, self.P = scheme, rng, P
        self.global_n = 0
        self.tops = [n for pr in P.procs for n in pr["names"]]

    def start_decl(self, forbidden):
        self.map = {}
        self.local_n = 0
        self.forbidden = set(forbidden)
        self.pool = list(LETTERS)
        if self.scheme == "clash":
            # prefer the spellings of top-level channels of OTHER declarations and of common parameter names
            self.pool = [t for t in self.tops if t not in self.forbidden] + self.pool

    def bind(self, bid, live_ids, avoid=()):
        avoid = {a for a in avoid if a}
        if self.scheme == "unique":
            self.global_n += 1
            s = "v%d" % self.global_n
        else:
            live = {self.map[i] for i in live_ids if i in self.map}
            if self.scheme == "local":
                used = set(self.map.values())
                s = next(c for c in self.pool + ["n%d" % k for k in range(200)] if c not in used and c not in self.forbidden and c not in avoid)
            else:  # reuse / clash: smallest spelling that is not live right now
                s = next(c for c in self.pool + ["n%d" % k for k in range(200)] if c not in live and c not in self.forbidden and c not in avoid)
        self.map[bid] = s
        return s

    def ref(self, x):
        if x in self.map:
            return self.map[x]
        if isinstance(x, tuple) and x[0] == "top":
            return x[1]
        return self.map[x]


def ty(P, t, lin):
    if t == UNIT:
        return "lin 1" if lin else "1"
    return _t(t)


def tdef(P, t, lin):
    u = P.types[t]
    def a(x):
        return "1" if x == UNIT else _t(x)
    if u[0] == "*":
        s = "%s * %s" % (a(u[1]), a(u[2]))
    elif u[0] == "-*":
        s = "%s -* %s" % (a(u[1]), a(u[2]))
    else:
        s = ("+" if u[0] == "+" else "&") + "{" + ", ".join("%s : %s" % (_l(l), a(x)) for l, x in u[1]) + "}"
    return "type %s = %s%s" % (_t(t), "lin " if lin else "", s)


def free_tops(term, acc=None):
    acc = set() if acc is None else acc
    if isinstance(term, tuple):
        if len(term) == 2 and term[0] == "top":
            acc.add(term[1])
            return acc
        for x in term:
            free_tops(x, acc)
    elif isinstance(term, list):
        for x in term:
            free_tops(x, acc)
    return acc


def render_term(P, nm, term, live, shadow, rng, xself, fnstyle):
    """live: list of binder ids / top refs currently in scope and unconsumed; shadow: spelling of the provider or None"""
    def me():
        return shadow if (shadow and rng.random() < 0.6) else "self"

    def R(x):
        return me() if x == "self" else nm.ref(x)

    def sub(k, live2, shadow2=shadow):
        return render_term(P, nm, k, live2, shadow2, rng, xself, fnstyle)

    k = term[0]
    if k == "close":
        return "close %s" % me()
    if k == "print":
        return "print %s; %s" % (term[1], sub(term[2], live))
    if k == "wait":
        return "wait %s; %s" % (R(term[1]), sub(term[2], [x for x in live if x != term[1]]))
    if k == "drop":
        return "drop %s; %s" % (R(term[1]), sub(term[2], [x for x in live if x != term[1]]))
    if k == "fwd":
        return "fwd %s %s" % (me(), R(term[1]))
    if k == "send":
        return "send %s<%s, %s>" % (R(term[1]), R(term[2]), R(term[3]))
    if k == "sel":
        return "%s.%s<%s>" % (R(term[1]), _l(term[2]), R(term[3]))
    if k == "call":
        args = [R(x) for x in term[2]]
        if fnstyle.get(term[1]) and rng.random() < 0.7:
            args = [me()] + args
        return "%s(%s)" % (_f(term[1]), ", ".join(args))
    if k == "recv":
        _, a, b, frm, K = term
        src = R(frm)
        live2 = [x for x in live if x != frm]
        sa = nm.bind(a, live2, {shadow})
        sb = nm.bind(b, live2 + [a], {shadow})
        if frm == "self":
            return "<%s, %s> <- recv %s; %s" % (sa, sb, src, sub(K, live2 + [a], sb))
        return "<%s, %s> <- recv %s; %s" % (sa, sb, src, sub(K, live2 + [a, b]))
    if k == "case":
        _, frm, brs = term
        src = R(frm)
        live2 = [x for x in live if x != frm]
        outs = []
        for (l, c, K) in brs:
            sc = nm.bind(c, live2, {shadow})
            if frm == "self":
                outs.append("%s<%s> => %s" % (_l(l), sc, sub(K, live2, sc)))
            else:
                outs.append("%s<%s> => %s" % (_l(l), sc, sub(K, live2 + [c])))
        return "case %s ( %s )" % (src, " | ".join(outs))
    if k == "split":
        _, a, b, x, K = term
        src = R(x)
        live2 = [y for y in live if y != x]
        sa = nm.bind(a, live2, {shadow})
        sb = nm.bind(b, live2 + [a], {shadow})
        return "<%s, %s> <- split %s; %s" % (sa, sb, src, sub(K, live2 + [a, b]))
    if k == "new":
        _, x, t, body, K = term
        # the body is rendered in the scope before x is bound; names it consumes leave the live set
        if body[0] == "call":
            used = [y for y in body[2]]
        elif body[0] == "close":
            used = []
        elif body[0] == "send":
            used = [body[1], body[2]]
        elif body[0] == "sel":
            used = [body[3]] if body[1] == "self" else [body[1]]
        else:
            raise ValueError(body)
        refs = {y: nm.ref(y) for y in used}      # spellings before x is bound (x may re-use the spelling of a consumed name)
        live2 = [y for y in live if y not in used]
        # a leaf body mentions the consumed names as a client: the new name may not take their spelling (it would denote the provider there)
        sx = nm.bind(x, live2, {shadow} | (set(refs.values()) if body[0] != "call" else set()))
        if body[0] == "call":
            args = [refs[y] for y in used]
            if fnstyle.get(body[1]) and rng.random() < 0.4:
                args = ["self"] + args
            bs = "%s(%s)" % (_f(body[1]), ", ".join(args))
        elif body[0] == "close":
            bs = "close self"
        elif body[0] == "send":
            bs = "send %s<%s, self>" % (refs[body[1]], refs[body[2]])
        elif body[1] == "self":
            bs = "self.%s<%s>" % (_l(body[2]), refs[body[3]])
        else:
            bs = "%s.%s<self>" % (refs[body[1]], _l(body[2]))
        ann = " : %s" % ty(P, t, P.lin) if t is not None else ""
        return "%s%s <- new %s; %s" % (sx, ann, bs, sub(K, live2 + [x]))
    raise ValueError(term)


def idmap(P, style):
    """consistent renaming of type names, function names and choice labels.
    plain: as generated; ren: fresh spellings; cross: spellings that coincide with channel / parameter spellings of other name spaces"""
    labels = sorted({l for t in P.types.values() if t[0] in ("+", "&") for l, _ in t[1]})
    fns = [f["name"] for f in P.funcs]
    tys = list(P.types)
    if style == "plain":
        return {}
    m = {}
    if style == "ren":
        for i, l in enumerate(labels):
            m[("l", l)] = "lab%d_%s" % (i, l[::-1])
        for i, f in enumerate(fns):
            m[("f", f)] = "fun%d" % (len(fns) - i)
        for i, t in enumerate(tys):
            m[("t", t)] = "Ty%d" % (len(tys) - i)
    else:  # cross
        chan = list(LETTERS)
        for i, l in enumerate(labels):
            m[("l", l)] = chan[i % len(chan)]                 # labels spelled like channels
        for i, f in enumerate(fns):
            m[("f", f)] = (labels + ["pa", "pb", "main"])[i] if i < len(labels) + 3 else "f_%s" % chan[i % len(chan)]   # functions spelled like labels / processes
        for i, t in enumerate(tys):
            m[("t", t)] = ("t%d_" % i) + (fns[i % len(fns)] if fns else "x")
    return m


_IDM = {}


def _t(x):
    return _IDM.get(("t", x), x)


def _f(x):
    return _IDM.get(("f", x), x)


def _l(x):
    return _IDM.get(("l", x), x)


def render(P, scheme="local", seed=0, order=None, xself=0.4, ids="plain"):
    """text of the program under a naming scheme; order: permutation of the declaration list (None = canonical)"""
    global _IDM
    _IDM = idmap(P, ids)
    rng = random.Random(seed * 1000003 + sum(map(ord, scheme)))
    nm = Namer(scheme, rng, P)
    fnstyle = {f["name"]: (rng.random() < xself) for f in P.funcs}
    decls = []
    for t in P.types:
        decls.append(tdef(P, t, P.lin))
    for f in P.funcs:
        nm.start_decl(forbidden=[])
        ps = []
        live = []
        for (pid, t) in f["params"]:
            ps.append("%s : %s" % (nm.bind(pid, live), ty(P, t, P.lin)))
            live.append(pid)
        if fnstyle[f["name"]]:
            w = nm.bind(("w", f["name"]), live)
            nm.forbidden = set(nm.forbidden) | {w}
            body = render_term(P, nm, f["body"], live, w, rng, xself, fnstyle)
            decls.append("let %s[%s] = %s" % (_f(f["name"]), ", ".join(["%s : %s" % (w, ty(P, f["ret"], P.lin))] + ps), body))
        else:
            body = render_term(P, nm, f["body"], live, None, rng, xself, fnstyle)
            decls.append("let %s(%s) : %s = %s" % (_f(f["name"]), ", ".join(ps), ty(P, f["ret"], P.lin), body))
    for pr in P.procs:
        ft = free_tops(pr["body"])
        nm.start_decl(forbidden=set(pr["names"]) | ft)
        live = [("top", n) for n in ft]
        body = render_term(P, nm, pr["body"], live, None, rng, xself, fnstyle)
        decls.append("prc[%s] : %s = %s" % (", ".join(pr["names"]), ty(P, pr["T"], P.lin), body))
    if order is not None:
        r2 = random.Random(order)
        r2.shuffle(decls)
    return "\n".join(decls) + "\n"


if __name__ == "__main__":
    import sys
    s = int(sys.argv[1]) if len(sys.argv) > 1 else 1
    P = generate(s, fuel=5)
    for sch in ("unique", "local", "reuse", "clash"):
        print("// ---- %s" % sch)
        print(render(P, sch, seed=s))
