#!/usr/bin/env python3
"""vcheck <property id> [--tier quick|thorough] : run one check, write its evidence, print the verdict."""
import sys, os, importlib
sys.path.insert(0, os.path.dirname(os.path.abspath(__file__)))
import vlib

MODULES = ["checks_rt", "checks_types", "checks_front", "checks_typing", "checks_misc"]


def registry():
    reg = {}
    for m in MODULES:
        try:
            mod = importlib.import_module(m)
        except ModuleNotFoundError as e:
            if e.name != m:
                raise
            continue
        reg.update(mod.CHECKS)
    return reg


def main():
    if "--setup" in sys.argv:
        vlib.build(("vdrive", "vblack", "vworker"))
        print("setup ok")
        return 0
    pid = sys.argv[1]
    if "--tier" in sys.argv:
        os.environ["VERIF_TIER"] = sys.argv[sys.argv.index("--tier") + 1]
    reg = registry()
    if pid not in reg:
        print("no check for", pid)
        return 2
    return reg[pid]()


if __name__ == "__main__":
    sys.exit(main())
