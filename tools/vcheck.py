#!/usr/bin/env python3
"""vcheck <property id> [--tier quick|thorough] : run one check, write its evidence, print the verdict."""
import sys, os, importlib
sys.path.insert(0, os.path.dirname(os.path.abspath(__file__)))
import vlib

MODULES = ["checks_rt", "checks_types", "checks_front", "checks_typing", "checks_misc", "checks_print"]


def registry():
    reg = {}
    for m in MODULES:
        try:
            mod = importlib.import_module(m)
        except ModuleNotFoundError as e:
            if e.name != m:
                raise
            continue
        reg.update(mod.CHECKS)
    return reg


def replay(pid, path):
    """re-execute the artefact of a reported violation on the real code (built from /repo's working tree) and say whether it still shows"""
    import json, os, collections
    d = json.load(open(path))
    art = d.get("artefact", {})
    print("property", d.get("property"), "-", d.get("what", "")[:300])
    vlib.build(("vdrive", "vworker"))
    os.makedirs(vlib.WORKROOT, exist_ok=True)
    texts = [(k, art[k]) for k in ("program", "program_a", "program_b") if isinstance(art.get(k), str)]
    bad = False
    w = vlib.Worker(timeout=20)
    verdicts = {}
    for k, t in texts:
        r = w.call({"op": "check", "text": t, "grace_ms": 500})
        vd = "crash" if ("crash" in r or "panic" in r or r.get("hang")) else ("parse-error" if r.get("parse") != "ok" else ("accept" if r.get("tc") == "ok" else "reject"))
        verdicts[k] = vd
        print("  typecheck of %s: %s %s" % (k, vd, str(r.get("tc") or r.get("parse") or r.get("crash"))[:160]))
        if vd == "crash" or ("expected" in art and vd != art["expected"]):
            bad = True
    w.stop()
    if len(set(verdicts.values())) > 1:
        bad = True
    run = art.get("run") or art.get("run_a")
    rid = run["id"] if isinstance(run, dict) else run
    if texts and isinstance(rid, str) and "|" in rid:
        parts = rid.split("|")
        mode = parts[1]
        for k, t in texts:
            if verdicts.get(k) != "accept":
                continue
            jobs = [{"id": "replay|%d" % i, "text": t, "mode": mode, "typecheck": True, "execute": True, "gomaxprocs": int(parts[2]) if len(parts) > 2 else 16,
                     "monitor": bool(int(parts[3])) if len(parts) > 3 else False, "seed": i, "yield": float(parts[4]) if len(parts) > 4 else 0.0, "trace": True}
                    for i in range(12)]
            res = vlib.run_jobs(os.path.join(vlib.BUILD, "vdrive"), jobs, batch=1, timeout=30)
            c = collections.Counter()
            for j in jobs:
                r = res[j["id"]]
                if r.get("crash"):
                    c["CRASH " + r["crash"][:80].replace("\n", " ")] += 1
                    bad = True
                else:
                    c["prints [%s] stuck=%d" % (" ".join(sorted(r.get("prints") or [])), len(r.get("blocked") or []))] += 1
            print("  12 runs of %s in mode %s:" % (k, mode))
            for o, n in c.most_common():
                print("    %2d x %s" % (n, o[:300]))
            if "reference_bag" in art and any(sorted(res[j["id"]].get("prints") or []) != sorted(art["reference_bag"]) for j in jobs if not res[j["id"]].get("crash")):
                bad = True
            if len([o for o in c if not o.startswith("CRASH")]) > 1:
                bad = True
    if bad:
        print("VIOLATION property=%s replay=%s" % (pid, path))
        return 1
    print("not reproduced on the current tree")
    return 0


def main():
    if "--setup" in sys.argv:
        vlib.build(("vdrive", "vblack", "vworker"))
        print("setup ok")
        return 0
    pid = sys.argv[1]
    if "--replay" in sys.argv:
        return replay(pid, sys.argv[sys.argv.index("--replay") + 1])
    if "--tier" in sys.argv:
        os.environ["VERIF_TIER"] = sys.argv[sys.argv.index("--tier") + 1]
    reg = registry()
    if pid not in reg:
        print("no check for", pid)
        return 2
    return reg[pid]()


if __name__ == "__main__":
    sys.exit(main())
