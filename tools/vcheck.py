#!/usr/bin/env python3
import sys
if __name__ == "__main__":
    if "--setup" in sys.argv:
        sys.exit(0)
    sys.exit(2)
