"""C15, process terms: bodies printed by Form.String() and re-parsed alone must denote the same term (PrintForm.tla)."""
import json, os, glob, random, concurrent.futures, sys
import vlib
sys.setrecursionlimit(200000)
MAX_NODES = 300     # larger bodies (the deep-nesting stress inputs of C09 / C11) are not re-parsed here

FORM_CFG = """INIT FInit
NEXT FNext
CONSTANTS
  Parens = TRUE
INVARIANTS SameTerm SameMarks
CHECK_DEADLOCK FALSE
"""


def sub_nodes(nodes, root):
    """the node table restricted to the sub-tree at root, renumbered from 1 (keeps the TLC input small)"""
    order = []

    def walk(n):
        order.append(n)
        nd = nodes[n - 1]
        for key in ("body", "next"):
            if key in nd and nd["k"] != "call":
                pass
        k = nd["k"]
        if k == "case":
            for b in nd["br"]:
                walk(b["next"])
        elif k == "new":
            walk(nd["body"]); walk(nd["next"])
        elif k in ("recv", "split", "wait", "shift", "drop", "print"):
            walk(nd["next"])
    walk(root)
    idx = {n: i + 1 for i, n in enumerate(order)}
    out = []
    for n in order:
        nd = json.loads(json.dumps(nodes[n - 1]))
        if nd["k"] == "case":
            for b in nd["br"]:
                b["next"] = idx[b["next"]]
        for key in ("body", "next"):
            if key in nd and isinstance(nd[key], int):
                nd[key] = idx[nd[key]]
        out.append(nd)
    return out


def named_self(nodes):
    """does the term name its provider explicitly (w|self) instead of being written in terms of self?  (outside the property's premise)"""
    def names(nd):
        for k, x in nd.items():
            if isinstance(x, dict) and "self" in x:
                yield x
            elif k == "args":
                for a in x:
                    yield a
            elif k == "br":
                for b in x:
                    yield b["pay"]
    return any(nm["self"] and nm["id"] for nd in nodes for nm in names(nd))


def program_texts(tier, seed):
    import rt
    texts = [(p["name"], p["text"]) for p in rt.fixed_corpus()]
    for f in sorted(glob.glob(os.path.join(vlib.VERIF, "corpus", "tc", "*.grits")) + glob.glob(os.path.join(vlib.VERIF, "corpus", "typing", "*.grits"))):
        texts.append(("corpus/" + os.path.basename(f), open(f).read()))
    for p in rt.pgen_programs(tier, seed)[:: (4 if tier == "quick" else 1)]:
        texts.append((p["name"], p["text"]))
    return texts


def forms_roundtrip(v, work, tier, seed):
    texts = program_texts(tier, seed)

    def run_chunk(chunk):
        w = vlib.Worker(timeout=15)
        out = []
        for name, text in chunk:
            r = w.call({"op": "forms", "text": text})
            if r.get("parse") != "ok":
                continue
            d = r["dump"]
            bodies = [(f["body"], s, "function %s" % f["name"]) for f, s in zip(d["funcs"], r.get("funcbodies") or [])] + \
                     [(p["body"], s, "process %s" % ",".join(p["provs"])) for p, s in zip(d["procs"], r.get("procbodies") or [])]
            for root, printed, what in bodies:
                if len(printed) > 20000 or named_self(sub_nodes(d["nodes"], root)):
                    continue
                r2 = w.call({"op": "forms", "text": printed})
                if r2.get("parse") == "ok" and r2["dump"]["procs"]:
                    d2 = r2["dump"]
                    b = {"nodes": sub_nodes(d2["nodes"], d2["procs"][0]["body"]), "root": 1}
                else:
                    b = {"nodes": [], "root": 0}
                if len(b["nodes"]) > MAX_NODES:
                    continue
                out.append({"a": {"nodes": sub_nodes(d["nodes"], root), "root": 1}, "b": b, "printed": printed, "of": "%s in %s" % (what, name),
                            "parse": r2.get("parse") or r2.get("crash") or ("hang" if r2.get("hang") else "")})
        w.stop()
        return out

    cases = []
    k = max(1, (len(texts) + vlib.NCPU - 1) // vlib.NCPU)
    with concurrent.futures.ThreadPoolExecutor(max_workers=vlib.NCPU) as ex:
        for out in ex.map(run_chunk, [texts[i:i + k] for i in range(0, len(texts), k)]):
            cases += out
    # distinct printed texts only
    seen, uniq = set(), []
    for c in cases:
        if c["printed"] not in seen:
            seen.add(c["printed"]); uniq.append(c)
    cases = uniq
    states = 0
    failures = []

    def validate(k_chunk):
        k, chunk = k_chunk
        todo = list(chunk)
        st, fails = 0, []
        while todo and len(fails) < 4:
            p = work.path("forms_%d_%d.json" % (k, len(todo)))
            json.dump([{x: c[x] for x in ("a", "b", "printed")} for c in todo], open(p, "w"))
            r = vlib.tlc("PrintForm", FORM_CFG, env={"VERIF_FORMS": p}, workers=1, timeout=1500, work=work)
            os.remove(p)
            st += r["distinct"]
            if r["ok"]:
                break
            if r["violated"]:
                idx = int(vlib.last_state_vars(r["out"], ["j"]).get("j", "1"))
                fails.append(dict(todo[idx - 1], inv=r["violated"]))
                todo = todo[idx:]
            else:
                fails.append({"error": (r["error_text"] or "timeout")[:800]})
                break
        return st, fails

    kk = max(1, (len(cases) + vlib.NCPU - 1) // vlib.NCPU)
    with concurrent.futures.ThreadPoolExecutor(max_workers=vlib.NCPU) as ex:
        for st, fails in ex.map(validate, list(enumerate([cases[i:i + kk] for i in range(0, len(cases), kk)]))):
            states += st; failures += fails
    for c in failures:
        if "error" in c:
            v.harness_errors.append("PrintForm.tla: " + c["error"]); continue
        how = "does not parse: " + c["parse"][:120] if c["b"]["root"] == 0 else ("parses back to a different term" if c["inv"] == "SameTerm" else "parses back without the explicit polarity marks")
        v.violation("the %s prints as '%s', which %s" % (c["of"], c["printed"][:300], how), {"case": c}, {"inv": c["inv"], "parsed": c["b"]["root"] != 0})
    return {"process_terms_printed_and_reparsed": len(cases), "process_term_states": states, "programs_supplying_terms": len(texts),
            "process_term_failures": len([c for c in failures if "error" not in c])}
