"""Shared machinery of the /verif checks: building the drivers from /repo's working tree,
running jobs through them with crash attribution, running TLC, writing evidence."""
import json, os, subprocess, sys, time, shutil, hashlib, tempfile, re, random, concurrent.futures

VERIF = os.path.dirname(os.path.dirname(os.path.abspath(__file__)))
REPO = os.environ.get("VERIF_REPO", "/repo")
SPEC = os.path.join(VERIF, "spec")
BUILD = os.path.join(VERIF, ".build")
WORKROOT = os.path.join(VERIF, ".work")
NCPU = os.cpu_count() or 4

GOENV = dict(os.environ, GOFLAGS="-mod=mod", GOPROXY="off", GOSUMDB="off", GOTOOLCHAIN="local",
             CGO_ENABLED=os.environ.get("CGO_ENABLED", "0"))


def seed():
    try:
        return int(os.environ.get("VERIF_SEED", "1"))
    except ValueError:
        return 1


def tier(argv=None):
    argv = argv if argv is not None else sys.argv
    if "--tier" in argv:
        return argv[argv.index("--tier") + 1]
    return os.environ.get("VERIF_TIER", "quick")


class Work:
    """scratch directory, removed on exit"""

    def __init__(self, name):
        import atexit
        os.makedirs(WORKROOT, exist_ok=True)
        self.dir = tempfile.mkdtemp(prefix=name + ".", dir=WORKROOT)
        atexit.register(self.cleanup)

    def path(self, *a):
        return os.path.join(self.dir, *a)

    def cleanup(self):
        shutil.rmtree(self.dir, ignore_errors=True)

    def __enter__(self):
        return self

    def __exit__(self, *a):
        self.cleanup()


def sh(cmd, **kw):
    return subprocess.run(cmd, stdout=subprocess.PIPE, stderr=subprocess.STDOUT, text=True, **kw)


# ----------------------------------------------------------------------------- build
def build(targets=("vdrive", "vblack", "vworker"), race=False):
    """(Re)build the drivers against /repo's current working tree. go's own cache makes this cheap
    when nothing changed; a compile error of the edited tree is a harness failure (exit 2)."""
    os.makedirs(BUILD, exist_ok=True)
    hdir = os.path.join(VERIF, "harness")
    shutil.copyfile(os.path.join(REPO, "go.sum"), os.path.join(hdir, "go.sum"))
    specs = {
        "vdrive": (["-tags", "verif"], "./cmd/vdrive"),
        "vblack": ([], "./cmd/vdrive"),
        "vworker": (["-tags", "verif"], "./cmd/vworker"),
        "vdrive-race": (["-tags", "verif", "-race"], "./cmd/vdrive"),
        "vblack-race": (["-race"], "./cmd/vdrive"),
        "grits": ([], None),
    }
    for t in targets:
        flags, pkg = specs[t]
        env = dict(GOENV)
        if "-race" in flags:
            env["CGO_ENABLED"] = "1"
        if t == "grits":
            r = sh(["go", "build", "-o", os.path.join(BUILD, "grits"), "."], cwd=REPO, env=env)
        else:
            r = sh(["go", "build"] + flags + ["-o", os.path.join(BUILD, t), pkg], cwd=hdir, env=env)
        if r.returncode != 0:
            print("BUILD FAILED for", t)
            print(r.stdout[-4000:])
            sys.exit(2)
    return BUILD


def repo_tree_hash():
    r = sh(["git", "-C", REPO, "rev-parse", "HEAD"])
    d = sh(["git", "-C", REPO, "diff", "HEAD"])
    return hashlib.sha256((r.stdout + d.stdout).encode()).hexdigest()[:16]


# ----------------------------------------------------------------------------- jobs
def _run_batch(binary, jobs, timeout, extra_env=None):
    """Run a list of jobs in one driver process. Returns dict id -> result; a job whose process died
    gets {"crash": <stderr tail>}; a job that exceeded the time limit gets {"hang": True}."""
    out = {}
    todo = list(jobs)
    while todo:
        w = tempfile.mkdtemp(prefix="batch.", dir=WORKROOT)
        try:
            inp = os.path.join(w, "in.ndjson")
            outp = os.path.join(w, "out.ndjson")
            with open(inp, "w") as f:
                for j in todo:
                    f.write(json.dumps(j) + "\n")
            env = dict(os.environ)
            if extra_env:
                env.update(extra_env)
            hang = False
            try:
                p = subprocess.run([binary, "-in", inp, "-out", outp], stdout=subprocess.PIPE, stderr=subprocess.PIPE,
                                   timeout=timeout * max(1, len(todo)), env=env)
                stderr = p.stderr.decode("utf-8", "replace")
                rc = p.returncode
            except subprocess.TimeoutExpired as e:
                stderr = (e.stderr or b"").decode("utf-8", "replace")
                rc = -9
                hang = True
            begun = []
            if os.path.exists(outp):
                for line in open(outp):
                    try:
                        d = json.loads(line)
                    except ValueError:
                        continue
                    if d.get("begin"):
                        begun.append(d["id"])
                    else:
                        out[d["id"]] = d
            unfinished = [i for i in begun if i not in out]
            if unfinished:
                bad = unfinished[-1]
                out[bad] = {"id": bad, "hang": True} if hang else {"id": bad, "crash": stderr[-6000:], "rc": rc}
            elif rc != 0 and not begun:
                for j in todo:
                    out[j["id"]] = {"id": j["id"], "crash": "driver failed to start: " + stderr[-2000:], "rc": rc}
            todo = [j for j in todo if j["id"] not in out]
            if rc == 0 and todo:
                # should not happen: driver exited cleanly without results
                for j in todo:
                    out[j["id"]] = {"id": j["id"], "crash": "no result", "rc": rc}
                todo = []
        finally:
            shutil.rmtree(w, ignore_errors=True)
    return out


def run_jobs(binary, jobs, batch=8, timeout=20, parallel=None, extra_env=None):
    os.makedirs(WORKROOT, exist_ok=True)
    parallel = parallel or NCPU
    batches = [jobs[i:i + batch] for i in range(0, len(jobs), batch)]
    res = {}
    with concurrent.futures.ThreadPoolExecutor(max_workers=parallel) as ex:
        for r in ex.map(lambda b: _run_batch(binary, b, timeout, extra_env), batches):
            res.update(r)
    return res


# ----------------------------------------------------------------------------- TLC
TLC_JAR = "/opt/veriftools/tla/tla2tools.jar:/opt/veriftools/tla/CommunityModules-deps.jar"


def tlc(spec, cfg_text, env=None, workers=1, timeout=600, work=None, extra=(), heap=None, deadlock_ok=False):
    """Run TLC on spec (a module name in /verif/spec) with the given cfg text.
    Returns dict(rc, ok, out, generated, distinct, depth, violated, deadlock, laststate)."""
    own = work is None
    w = work or Work("tlc")
    try:
        sub = tempfile.mkdtemp(prefix="tlc.", dir=w.dir)
        for f in os.listdir(SPEC):
            if f.endswith(".tla"):
                shutil.copyfile(os.path.join(SPEC, f), os.path.join(sub, f))
        cfg = os.path.join(sub, spec + ".cfg")
        open(cfg, "w").write(cfg_text)
        e = dict(os.environ)
        if env:
            e.update({k: str(v) for k, v in env.items()})
        # the JVM's default maximum heap is a quarter of the machine's memory PER PROCESS; many TLC processes run side by side (16 validation
        # chunks per check, several checks at a time), so every run gets an explicit bound
        cmd = ["java", "-XX:+UseParallelGC", "-Xmx" + (heap or ("3g" if workers == 1 else "10g"))]
        cmd += ["-Xss256m", "-cp", TLC_JAR, "tlc2.TLC", "-workers", str(workers), "-metadir", os.path.join(sub, "md"),
                "-config", cfg] + list(extra) + [spec + ".tla"]
        t0 = time.time()
        try:
            p = subprocess.run(cmd, cwd=sub, stdout=subprocess.PIPE, stderr=subprocess.STDOUT, text=True, timeout=timeout, env=e)
            out, rc = p.stdout, p.returncode
        except subprocess.TimeoutExpired as ex:
            out = (ex.stdout or b"")
            out = out.decode("utf-8", "replace") if isinstance(out, bytes) else out
            rc = -9
        r = {"rc": rc, "out": out, "wall": time.time() - t0, "timeout": rc == -9}
        m = re.search(r"(\d+) states generated, (\d+) distinct states found", out)
        r["generated"] = int(m.group(1)) if m else 0
        r["distinct"] = int(m.group(2)) if m else 0
        m = re.search(r"depth of the complete state graph search is (\d+)", out)
        r["depth"] = int(m.group(1)) if m else 0
        m = re.search(r"Invariant (\S+) is violated", out) or re.search(r"The invariant of (\S+) is equal to FALSE", out)
        r["violated"] = m.group(1) if m else None
        if not m:
            m = re.search(r"Action property (\S+) is violated|Temporal properties were violated", out)
            if m:
                r["violated"] = m.group(1) or "temporal"
        r["deadlock"] = "Deadlock reached" in out
        r["ok"] = rc == 0 and "No error has been found" in out
        r["error_text"] = None
        if not r["ok"] and not r["violated"] and not r["deadlock"]:
            m = re.search(r"Error: (.*)", out, re.S)
            r["error_text"] = (m.group(1)[:3000] if m else out[-3000:])
        return r
    finally:
        if own:
            w.cleanup()


def last_state_vars(out, names):
    """extract the last printed value of simple variables (e.g. l, ti) from a TLC error trace"""
    res = {}
    for n in names:
        ms = re.findall(r"^(?:/\\ )?%s = (.*)$" % re.escape(n), out, re.M)
        if ms:
            res[n] = ms[-1]
    return res


# ----------------------------------------------------------------------------- evidence / findings
def write_evidence(pid, level, coverage, wall, violations=0, assumptions=None, tier_name=None):
    os.makedirs(os.path.join(VERIF, "evidence"), exist_ok=True)
    ev = {"property_id": pid, "tier": tier_name or tier(), "seed": seed(), "level": level, "coverage": coverage,
          "assumptions": assumptions or [], "wall_s": round(wall, 2), "violations": violations}
    with open(os.path.join(VERIF, "evidence", pid + ".json"), "w") as f:
        json.dump(ev, f, indent=1, default=str)
    return ev


def known_findings():
    p = os.path.join(VERIF, "known_findings.json")
    if not os.path.exists(p):
        return {"known": [], "fixed": []}
    return json.load(open(p))


def replay_dir(pid, tag):
    d = os.path.join(VERIF, "out", pid, tag)
    os.makedirs(d, exist_ok=True)
    return d


class Verdict:
    """collects violations / known findings for one property and produces the exit code"""

    def __init__(self, pid):
        self.pid = pid
        self.violations = []
        self.known = []
        self.notes = []
        self.harness_errors = []
        kf = known_findings()
        self.kf = [k for k in kf.get("known", []) if k["property"] == pid]

    def violation(self, what, artefact, signature=None):
        """artefact: dict written as replay file. signature: dict of facts matched against known findings."""
        for k in self.kf:
            if signature and all(signature.get(a) == b for a, b in k.get("match", {}).items()):
                if (k["id"], what) not in [(x[0], x[1]) for x in self.known]:
                    self.known.append((k["id"], k["what"]))
                return False
        d = replay_dir(self.pid, "v%03d" % (len(self.violations) + 1))
        path = os.path.join(d, "replay.json")
        with open(path, "w") as f:
            json.dump({"property": self.pid, "what": what, "artefact": artefact, "signature": signature}, f, indent=1, default=str)
        self.violations.append((what, path))
        return True

    def finish(self):
        seen = set()
        for kid, what in self.known:
            if kid in seen:
                continue
            seen.add(kid)
            print("KNOWN-FINDING: property=%s %s %s" % (self.pid, kid, what))
        for what, path in self.violations[:20]:
            print("VIOLATION property=%s replay=%s" % (self.pid, path))
            print("  ", what[:400].replace("\n", " "))
        if len(self.violations) > 20:
            print("  ... and %d more violations" % (len(self.violations) - 20))
        for n in self.notes[:6]:
            print("NOTE", n[:300].replace("\n", " "))
        if len(self.notes) > 6:
            print("NOTE ... and %d more notes" % (len(self.notes) - 6))
        if self.violations:
            return 1
        if self.harness_errors:
            for h in self.harness_errors[:10]:
                print("HARNESS-ERROR", h[:1000])
            return 2
        return 0


# ----------------------------------------------------------------------------- library worker
class Worker:
    """client of .build/vworker: one request per line; a dead or silent worker is an observation"""

    def __init__(self, timeout=10.0):
        self.timeout = timeout
        self.p = None
        self.n = 0
        self.restarts = 0

    def start(self):
        r, w = os.pipe()
        self.p = subprocess.Popen([os.path.join(BUILD, "vworker")], stdin=subprocess.PIPE, stdout=subprocess.DEVNULL,
                                  stderr=subprocess.PIPE, pass_fds=(), preexec_fn=lambda: os.dup2(w, 3), close_fds=False)
        os.close(w)
        self.rfd = os.fdopen(r, "r")
        self.restarts += 1

    def stop(self):
        if self.p:
            try:
                self.p.kill()
                self.p.wait(timeout=5)
            except Exception:
                pass
            try:
                self.rfd.close()
                self.p.stderr.close()
                self.p.stdin.close()
            except Exception:
                pass
            self.p = None

    def call(self, req, timeout=None):
        import select
        if self.p is None or self.p.poll() is not None:
            self.stop()
            self.start()
        self.n += 1
        req = dict(req, id=self.n)
        try:
            self.p.stdin.write((json.dumps(req) + "\n").encode())
            self.p.stdin.flush()
        except (BrokenPipeError, OSError):
            err = self._stderr()
            self.stop()
            return {"crash": err or "worker died before the request (late crash of an earlier call)", "late": True}
        rl, _, _ = select.select([self.rfd], [], [], timeout or self.timeout)
        if not rl:
            self.stop()
            return {"hang": True}
        line = self.rfd.readline()
        if not line:
            err = self._stderr()
            self.stop()
            return {"crash": err[-3000:]}
        try:
            return json.loads(line)
        except ValueError:
            return {"crash": "garbled reply: " + line[:200]}

    def _stderr(self):
        try:
            self.p.wait(timeout=3)
            txt = self.p.stderr.read().decode("utf-8", "replace")
            import re as _re
            m = _re.search(r"^(panic:|fatal error:).*$", txt, _re.M)
            head = txt[m.start():m.start() + 600] if m else txt[:600]
            return head + ("\n...\n" + txt[-300:] if len(txt) > 900 else "")
        except Exception:
            return ""

    def alive(self):
        return self.p is not None and self.p.poll() is None
