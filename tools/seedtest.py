#!/usr/bin/env python3
"""seedtest.py <seed dir> <name> <check ids...>
1. confirms the seeded change in a scratch worktree of /repo HEAD (applies, builds with and without the verif tag, the suite
   passes, the demonstration fails with it and passes without it);
2. stores it under /verif/seeded/<name>/ (patch.diff, demo, meta.json);
3. applies it to /repo, runs the given checks (quick tier), undoes it."""
import sys, os, subprocess, json, shutil, time
ENV = dict(os.environ, GOFLAGS="-mod=mod", GOPROXY="off", GOSUMDB="off", GOTOOLCHAIN="local")


def sh(cmd, cwd=None, timeout=1200):
    p = subprocess.run(cmd, shell=True, cwd=cwd, env=ENV, stdout=subprocess.PIPE, stderr=subprocess.STDOUT, text=True, timeout=timeout)
    return p.returncode, p.stdout


def main():
    src, name, checks = sys.argv[1], sys.argv[2], sys.argv[3:]
    meta = json.load(open(os.path.join(src, "seed_meta.json")))
    wt = "/tmp/seedchk_" + name
    sh("git -C /repo worktree remove --force %s" % wt)
    rc, out = sh("git -C /repo worktree add --detach %s HEAD" % wt)
    report = {"name": name, "property": meta.get("property"), "summary": meta.get("summary"), "needs": meta.get("needs"), "demo_cmd": meta.get("demo_cmd")}
    try:
        rc, out = sh("git apply --3way %s/seed.patch" % src, cwd=wt)
        report["applies"] = rc == 0
        if rc != 0:
            report["apply_out"] = out[-500:]
            print(json.dumps(report, indent=1)); return 1
        sh("git reset -q", cwd=wt)
        rc1, _ = sh("go build ./...", cwd=wt)
        rc2, _ = sh("go build -tags verif ./...", cwd=wt)
        report["builds"] = rc1 == 0 and rc2 == 0
        rc, out = sh("go test -vet=off -count=1 ./cmd/ ./parser/ ./process/ ./types/", cwd=wt)
        fails = [l for l in out.splitlines() if l.startswith("--- FAIL")]
        report["suite_passes"] = rc == 0 or all(("TestSimpleDUP" in f or "TestSimpleMultipleProvidersInitially" in f) for f in fails) and bool(fails)
        report["suite_fail_lines"] = fails[:5]
        if os.path.isdir(os.path.join(src, "seed_demo")):
            shutil.copytree(os.path.join(src, "seed_demo"), os.path.join(wt, "seed_demo"), dirs_exist_ok=True)
        demo = meta.get("demo_cmd", "")
        rc, out = sh(demo, cwd=wt, timeout=600)
        report["demo_fails_with_change"] = rc != 0
        sh("git stash -q", cwd=wt)   # the demo dir is untracked, the patch is stashed
        rc, out = sh(demo, cwd=wt, timeout=600)
        report["demo_passes_without"] = rc == 0
        if rc != 0:
            report["demo_without_out"] = out[-600:]
        sh("git stash pop -q", cwd=wt)
        rc, diff = sh("git diff", cwd=wt)
        dst = os.path.join("/verif/seeded", name)
        os.makedirs(dst, exist_ok=True)
        open(os.path.join(dst, "patch.diff"), "w").write(diff)
        if os.path.isdir(os.path.join(src, "seed_demo")):
            shutil.copytree(os.path.join(src, "seed_demo"), os.path.join(dst, "demo"), dirs_exist_ok=True)
        confirmed = all(report.get(k) for k in ("applies", "builds", "suite_passes", "demo_fails_with_change", "demo_passes_without"))
        report["confirmed"] = confirmed
        # run my checks against it
        results = {}
        if confirmed and checks:
            rc, out = sh("git -C /repo apply %s" % os.path.join(dst, "patch.diff"))
            if rc != 0:
                report["repo_apply_failed"] = out[-300:]
            else:
                try:
                    for c in checks:
                        t0 = time.time()
                        rc, out = sh("python3 tools/vcheck.py %s --tier quick" % c, cwd="/verif", timeout=2400)
                        lines = [l[:220] for l in out.splitlines() if l.startswith(("VIOLATION", "KNOWN", "HARNESS", "NOTE")) or l.startswith("   ")]
                        results[c] = {"exit": rc, "secs": round(time.time() - t0), "lines": lines[:6]}
                finally:
                    sh("git -C /repo checkout -- .")
        report["checks"] = results
        json.dump({"property": meta.get("property"), "summary": meta.get("summary"), "needs": meta.get("needs"), "demo_cmd": meta.get("demo_cmd"),
                   "files_changed": meta.get("files_changed"), "confirmed": {k: report.get(k) for k in ("applies", "builds", "suite_passes", "demo_fails_with_change", "demo_passes_without")},
                   "what_i_ran": "tools/seedtest.py: scratch worktree of /repo HEAD, git apply --3way, go build (with/without -tags verif), go test of the four packages, demo with and without the change; then the listed checks with the patch applied to /repo",
                   "checks": results}, open(os.path.join(dst, "meta.json"), "w"), indent=1)
        print(json.dumps(report, indent=1))
    finally:
        sh("git -C /repo worktree remove --force %s" % wt)
        shutil.rmtree(wt, ignore_errors=True)
    return 0


if __name__ == "__main__":
    sys.exit(main())
