"""C05, C06, C07 (and the generated inputs of C09): the real typechecker against the derivations of Gen.tla."""
import json, time, collections, concurrent.futures
import vlib, gen

_cache = {}


def typing_campaign():
    key = (vlib.tier(), vlib.seed())
    if key in _cache:
        return _cache[key]
    vlib.build(("vworker",))
    work = vlib.Work("typing")
    progs, stats = gen.generate(vlib.tier(), vlib.seed(), work)
    progs = list(progs) + directed_corpus()

    def run_chunk(chunk):
        w = vlib.Worker(timeout=10)
        out = []
        for p in chunk:
            r = w.call({"op": "check", "text": p["text"], "grace_ms": 0})
            q = dict(p)
            if r.get("hang"):
                q["verdict"] = "hang"
            elif "crash" in r or "panic" in r:
                q["verdict"] = "crash"; q["detail"] = (r.get("crash") or r.get("panic") or "")[:400]
            elif r.get("parse") != "ok":
                q["verdict"] = "parse-error"; q["detail"] = str(r.get("parse"))[:300]
            elif r.get("tc") == "ok":
                q["verdict"] = "accept"
            else:
                q["verdict"] = "reject"; q["detail"] = str(r.get("tc"))[:300]
            out.append(q)
        w.stop()
        return out

    res = []
    n = max(1, (len(progs) + vlib.NCPU - 1) // vlib.NCPU)
    with concurrent.futures.ThreadPoolExecutor(max_workers=vlib.NCPU) as ex:
        for out in ex.map(run_chunk, [progs[i:i + n] for i in range(0, len(progs), n)]):
            res += out
    work.cleanup()
    _cache[key] = (res, stats)
    return res, stats


def directed_corpus():
    """hand-written instances of the mutation classes that need a consistent edit of several sites (header: // expect: .. class: .. kind: ..)"""
    import glob, os, re
    out = []
    for f in sorted(glob.glob(os.path.join(vlib.VERIF, "corpus", "typing", "*.grits"))):
        text = open(f).read()
        m = re.match(r"// expect: (\w+)\s+class: (\w+)\s+kind: ([\w-]+)", text)
        if not m:
            continue
        exp, cls, kind = m.groups()
        out.append({"name": "typing/" + os.path.basename(f), "text": text, "plain": text, "src": "directed", "family": "directed", "expect": exp,
                    "mut": None if kind == "well-typed" else {"kind": kind, "class": cls}})
    return out


def _evidence(pid, res, stats, sel, t0, v, extra=None):
    mine = [p for p in res if sel(p)]
    kinds = collections.Counter((p["mut"]["kind"] if p["mut"] else "well-typed") for p in mine)
    cov = {"states": max(1, stats["states"]), "transitions": max(1, stats["generated"]),
           "traces_validated_against_impl": sum(1 for p in mine if p["verdict"] == p["expect"]),
           "samples": [{"expect": p["expect"], "mutation": p["mut"], "verdict": p["verdict"], "text": p["plain"]} for p in mine[:2] + mine[-2:]],
           "programs_judged": len(mine), "by_kind": dict(kinds), "generator_plans": stats["plans"], "generator_errors": stats.get("errors", [])[:5]}
    if extra:
        cov.update(extra)
    vlib.write_evidence(pid, "model_checking", cov, time.time() - t0, len(v.violations),
                        ["programs are behaviours of Gen.tla (typing derivations over two fixed type families, bounded rule applications per declaration; sampled with -simulate for the seed)",
                         "each mutation action's guard guarantees the edited program has no derivation; 'expected accept' programs are derivations, hence well-typed by construction"])


def _judge(pid, res, stats, sel, v):
    for e in stats.get("errors", []):
        v.harness_errors.append("generator: " + e)
    for p in res:
        if not sel(p):
            continue
        if p["verdict"] in ("crash", "hang"):
            v.notes.append("typechecker %s on %s (C09's concern)" % (p["verdict"], p["name"]))
            continue
        if p["verdict"] == "parse-error":
            v.harness_errors.append("generated text does not parse (%s): %s" % (p.get("detail"), p["plain"][-200:]))
            continue
        if p["verdict"] != p["expect"]:
            kind = p["mut"]["kind"] if p["mut"] else "well-typed"
            v.violation("%s program (%s) is %sed: %s %s" % ("mutated" if p["mut"] else "derivable", kind, p["verdict"],
                                                             p["plain"].split("\n", 6)[-1].replace("\n", " ; ")[:260], p.get("detail", "")[:120]),
                        {"program": p["text"], "expected": p["expect"], "mutation": p["mut"], "verdict": p["verdict"], "detail": p.get("detail")},
                        {"kind": kind, "verdict": p["verdict"]})


def c05():
    t0 = time.time()
    v = vlib.Verdict("C05")
    res, stats = typing_campaign()
    sel = lambda p: p["mut"] is not None and p["mut"]["class"] == "C05"
    _judge("C05", res, stats, sel, v)
    _evidence("C05", res, stats, sel, t0, v)
    return v.finish()


def c06():
    t0 = time.time()
    v = vlib.Verdict("C06")
    res, stats = typing_campaign()
    sel = lambda p: p["mut"] is not None and p["mut"]["class"] == "C06"
    _judge("C06", res, stats, sel, v)
    _evidence("C06", res, stats, sel, t0, v)
    return v.finish()


def c07():
    t0 = time.time()
    v = vlib.Verdict("C07")
    res, stats = typing_campaign()
    sel = lambda p: p["mut"] is None or p["mut"]["class"] == "C07"
    _judge("C07", res, stats, sel, v)
    _evidence("C07", res, stats, sel, t0, v)
    return v.finish()


CHECKS = {"C05": c05, "C06": c06, "C07": c07}
