"""C05, C06, C07 (and the generated inputs of C09): the real typechecker against the derivations of Gen.tla."""
import json, time, collections, concurrent.futures
import vlib, gen

_cache = {}


def typing_campaign():
    key = (vlib.tier(), vlib.seed())
    if key in _cache:
        return _cache[key]
    vlib.build(("vworker",))
    work = vlib.Work("typing")
    progs, stats = gen.generate(vlib.tier(), vlib.seed(), work)
    progs = list(progs) + directed_corpus()

    def run_chunk(chunk):
        w = vlib.Worker(timeout=10)
        out = []
        for p in chunk:
            r = w.call({"op": "check", "text": p["text"], "grace_ms": 0})
            q = dict(p)
            if r.get("hang"):
                q["verdict"] = "hang"
            elif "crash" in r or "panic" in r:
                q["verdict"] = "crash"; q["detail"] = (r.get("crash") or r.get("panic") or "")[:400]
            elif r.get("parse") != "ok":
                q["verdict"] = "parse-error"; q["detail"] = str(r.get("parse"))[:300]
            elif r.get("tc") == "ok":
                q["verdict"] = "accept"
            else:
                q["verdict"] = "reject"; q["detail"] = str(r.get("tc"))[:300]
            out.append(q)
        w.stop()
        return out

    res = []
    n = max(1, (len(progs) + vlib.NCPU - 1) // vlib.NCPU)
    with concurrent.futures.ThreadPoolExecutor(max_workers=vlib.NCPU) as ex:
        for out in ex.map(run_chunk, [progs[i:i + n] for i in range(0, len(progs), n)]):
            res += out
    work.cleanup()
    _cache[key] = (res, stats)
    return res, stats


def directed_corpus():
    """hand-written instances of the mutation classes that need a consistent edit of several sites (header: // expect: .. class: .. kind: ..)"""
    import glob, os, re
    out = []
    for f in sorted(glob.glob(os.path.join(vlib.VERIF, "corpus", "typing", "*.grits"))):
        text = open(f).read()
        m = re.match(r"// expect: (\w+)\s+class: (\w+)\s+kind: ([\w-]+)", text)
        if not m:
            continue
        exp, cls, kind = m.groups()
        out.append({"name": "typing/" + os.path.basename(f), "text": text, "plain": text, "src": "directed", "family": "directed", "expect": exp,
                    "mut": None if kind == "well-typed" else {"kind": kind, "class": cls}})
    return out


def _evidence(pid, res, stats, sel, t0, v, extra=None):
    mine = [p for p in res if sel(p)]
    kinds = collections.Counter((p["mut"]["kind"] if p["mut"] else "well-typed") for p in mine)
    cov = {"states": max(1, stats["states"]), "transitions": max(1, stats["generated"]),
           "traces_validated_against_impl": sum(1 for p in mine if p["verdict"] == p["expect"]),
           "samples": [{"expect": p["expect"], "mutation": p["mut"], "verdict": p["verdict"], "text": p["plain"]} for p in mine[:2] + mine[-2:]],
           "programs_judged": len(mine), "by_kind": dict(kinds), "generator_plans": stats["plans"], "generator_errors": stats.get("errors", [])[:5]}
    if extra:
        cov.update(extra)
    vlib.write_evidence(pid, "model_checking", cov, time.time() - t0, len(v.violations),
                        ["programs are behaviours of Gen.tla (typing derivations over two fixed type families, bounded rule applications per declaration; sampled with -simulate for the seed)",
                         "each mutation action's guard guarantees the edited program has no derivation; 'expected accept' programs are derivations, hence well-typed by construction",
                         "Typing.tla (recursive checker over the node table of the PARSED program) is an independent oracle for every closed program of the corpora and for single-token mutants of them, "
                         "within its fragment (no explicit polarity marks); wrongly accepted programs are attributed to C05 / C06 / C07 with the relaxed systems"])


def _judge(pid, res, stats, sel, v):
    for e in stats.get("errors", []):
        v.harness_errors.append("generator: " + e)
    for p in res:
        if not sel(p):
            continue
        if p["verdict"] in ("crash", "hang"):
            v.notes.append("typechecker %s on %s (C09's concern)" % (p["verdict"], p["name"]))
            continue
        if p["verdict"] == "parse-error":
            v.harness_errors.append("generated text does not parse (%s): %s" % (p.get("detail"), p["plain"][-200:]))
            continue
        if p["verdict"] != p["expect"]:
            kind = p["mut"]["kind"] if p["mut"] else "well-typed"
            v.violation("%s program (%s) is %sed: %s %s" % ("mutated" if p["mut"] else "derivable", kind, p["verdict"],
                                                             p["plain"].split("\n", 6)[-1].replace("\n", " ; ")[:260], p.get("detail", "")[:120]),
                        {"program": p["text"], "expected": p["expect"], "mutation": p["mut"], "verdict": p["verdict"], "detail": p.get("detail")},
                        {"kind": kind, "verdict": p["verdict"]})


def c05():
    t0 = time.time()
    v = vlib.Verdict("C05")
    res, stats = typing_campaign()
    sel = lambda p: p["mut"] is not None and p["mut"]["class"] == "C05"
    _judge("C05", res, stats, sel, v)
    import typing_oracle
    _evidence("C05", res, stats, sel, t0, v, typing_oracle.report(v, "C05", typing_oracle.stage()))
    return v.finish()


INDEP_CFG = """SPECIFICATION Spec
CONSTANTS Mode = "%s"
INVARIANTS Monotone LinAlwaysIndependent RepOnlyOnRep PositionIrrelevant VerdictOK
CHECK_DEADLOCK FALSE
"""


def indep_program(site, m, ks):
    ps = ["p%d" % (i + 1) for i in range(len(ks))]
    waits = "".join("wait %s; " % p for p in ps)
    if site == "fun":
        return "let f(%s) : %s 1 = %sclose self\n" % (", ".join("%s : %s 1" % (p, k) for p, k in zip(ps, ks)), m, waits)
    if site == "funx":
        return "let f[w : %s 1, %s] = %sclose w\n" % (m, ", ".join("%s : %s 1" % (p, k) for p, k in zip(ps, ks)), waits)
    if site == "cutcont":
        ps2, ks2 = ps[:-1], ks[:-1]
        waits2 = "".join("wait %s; " % p for p in ps2)
        return "let g(%s) : %s 1 = x : %s 1 <- new close self; wait x; %sclose self\n" % (
            ", ".join("%s : %s 1" % (p, k) for p, k in zip(ps2, ks2)), m, ks[-1], waits2)
    if site == "prc":
        bs = ["b%d" % (i + 1) for i in range(len(ks))]
        return "prc[a] : %s 1 = %sclose self\n" % (m, "".join("wait %s; " % b for b in bs)) + "".join("prc[%s] : %s 1 = close self\n" % (b, k) for b, k in zip(bs, ks))
    raise ValueError(site)


def indep_campaign(v, work):
    """every judgement site x every mode tuple (Indep.tla): the real verdict must be the expected one"""
    import itertools
    modes = ["rep", "mul", "aff", "lin"]
    cases = []
    for site in ("fun", "funx", "cutcont", "prc"):
        for m in modes:
            for n in (1, 2, 3):
                for ks in itertools.product(modes, repeat=n):
                    cases.append({"site": site, "m": m, "ks": list(ks), "text": indep_program(site, m, list(ks))})

    def run_chunk(chunk):
        w = vlib.Worker(timeout=10)
        for c in chunk:
            r = w.call({"op": "check", "text": c["text"]})
            if r.get("hang") or "crash" in r or "panic" in r:
                c["verdict"] = "crash"
            elif r.get("parse") != "ok":
                c["verdict"] = "parse-error"; c["detail"] = str(r.get("parse"))[:200]
            else:
                c["verdict"] = "accept" if r.get("tc") == "ok" else "reject"
                c["detail"] = str(r.get("tc"))[:200]
        w.stop()
        return chunk

    n = max(1, (len(cases) + vlib.NCPU - 1) // vlib.NCPU)
    with concurrent.futures.ThreadPoolExecutor(max_workers=vlib.NCPU) as ex:
        list(ex.map(run_chunk, [cases[i:i + n] for i in range(0, len(cases), n)]))
    for c in cases:
        if c["verdict"] == "parse-error":
            v.harness_errors.append("independence program does not parse (%s): %s" % (c.get("detail"), c["text"]))
    todo = [c for c in cases if c["verdict"] in ("accept", "reject")]
    model = vlib.tlc("Indep", INDEP_CFG % "model", workers=4, timeout=300, work=work, env={"VERIF_TRACES": "/dev/null"})
    if not model["ok"]:
        v.harness_errors.append("Indep.tla (model mode): %s" % (model["violated"] or model["error_text"]))
    ok, bad, states = 0, [], model["distinct"]
    if todo:
        import re
        tp = work.path("indep_obs.json")
        json.dump([{k: c[k] for k in ("site", "m", "ks", "verdict")} for c in todo], open(tp, "w"))
        # -continue: TLC reports every observation that violates VerdictOK, not only the first
        r = vlib.tlc("Indep", INDEP_CFG % "conform", env={"VERIF_TRACES": tp}, workers=1, timeout=600, work=work, extra=("-continue",))
        states += r["distinct"]
        if r["violated"] not in (None, "VerdictOK") or (not r["ok"] and not r["violated"]):
            v.harness_errors.append("Indep conformance: %s" % (r["violated"] or r["error_text"]))
        else:
            ois = sorted({int(x) for x in re.findall(r"^/\\ oi = (\d+)", r["out"], re.M)}) if r["violated"] else []
            bad = [todo[i - 1] for i in ois]
            ok = len(todo) - len(bad)
    for c in bad:
        kind = {"prc": "weaker-dep-prc", "fun": "weaker-dep-fun", "funx": "weaker-dep-fun", "cutcont": "weaker-dep-cut"}[c["site"]]
        v.violation("judgement %s with provider mode %s and context modes %s is %sed: %s" % (c["site"], c["m"], c["ks"], c["verdict"], c["text"].replace("\n", " ; ")),
                    {"program": c["text"], "site": c["site"], "m": c["m"], "ks": c["ks"], "verdict": c["verdict"], "detail": c.get("detail")},
                    {"kind": kind, "verdict": c["verdict"]})
    return {"judgements": len(cases), "conforming": ok, "violating": len(bad), "states": states,
            "by_site": dict(collections.Counter(c["site"] for c in cases)), "sample": cases[5]["text"]}


def c06():
    t0 = time.time()
    v = vlib.Verdict("C06")
    res, stats = typing_campaign()
    sel = lambda p: p["mut"] is not None and p["mut"]["class"] == "C06"
    _judge("C06", res, stats, sel, v)
    with vlib.Work("indep") as work:
        ind = indep_campaign(v, work)
    import typing_oracle
    extra = {"independence_enumeration": ind,
             "traces_validated_against_impl": ind["conforming"] + sum(1 for p in res if sel(p) and p["verdict"] == p["expect"])}
    extra.update(typing_oracle.report(v, "C06", typing_oracle.stage()))
    _evidence("C06", res, stats, sel, t0, v, extra)
    return v.finish()


def c07():
    t0 = time.time()
    v = vlib.Verdict("C07")
    res, stats = typing_campaign()
    sel = lambda p: p["mut"] is None or p["mut"]["class"] == "C07"
    _judge("C07", res, stats, sel, v)
    import typing_oracle
    _evidence("C07", res, stats, sel, t0, v, typing_oracle.report(v, "C07", typing_oracle.stage()))
    return v.finish()


CHECKS = {"C05": c05, "C06": c06, "C07": c07}
