"""Typing.tla as an oracle for the verdict of the real front end (C05 / C06 / C07): every program of the corpora (repository examples,
probe corpus, directed typing corpus, generated interacting programs and their ill-typed variants, token-level mutants of all of them) is
parsed by the real parser (dump of the PARSED program), typechecked by the real Typecheck, and TLC validates the verdict log against
Check (TypingConf.tla, invariant VerdictOK).  A wrongly accepted program is classified with the relaxed systems (Relax = "sub" / "indep")."""
import json, os, re, sys, time, glob, random, fcntl, concurrent.futures
import vlib

CFG = """SPECIFICATION Spec
CONSTANTS Relax = "%s"
INVARIANTS VerdictOK
CHECK_DEADLOCK FALSE
"""
sys.setrecursionlimit(100000)

TOK = re.compile(r"//[^\n]*|/\*.*?\*/|<-|=>|-\*|/\\|\\/|[A-Za-z0-9_']+|\S", re.S)
MODES = ["lin", "aff", "mul", "rep", "linear", "affine", "multicast", "replicable"]
KEYWORDS = {"type", "let", "prc", "assuming", "exec", "send", "recv", "case", "new", "close", "wait", "fwd", "split", "cast", "shift", "drop", "print", "self"}


def tokens(text):
    return [t for t in TOK.findall(text) if not t.startswith("//") and not t.startswith("/*")]


def token_mutants(texts, rng, n):
    """single random edits of program texts at token level (identifier swapped / replaced, statement dropped or duplicated, mode or label changed)"""
    out = []
    tries = 0
    while len(out) < n and tries < 20 * n:
        tries += 1
        name, text = rng.choice(texts)
        toks = tokens(text)
        ids = [i for i, t in enumerate(toks) if re.match(r"^[A-Za-z_][A-Za-z0-9_']*$", t) and t not in KEYWORDS and t not in MODES]
        seqs = [i for i, t in enumerate(toks) if t == ";"]
        kind = rng.choice(["swap", "replace", "replace", "dropstmt", "dupstmt", "mode", "delete", "self", "merge", "merge", "merge"])
        t2 = list(toks)
        if kind == "swap" and len(ids) >= 2:
            a, b = rng.sample(ids, 2)
            t2[a], t2[b] = t2[b], t2[a]
        elif kind == "replace" and len(ids) >= 2:
            a, b = rng.sample(ids, 2)
            t2[a] = t2[b]
        elif kind == "merge" and len(ids) >= 2:
            # inside ONE declaration, every occurrence of identifier a becomes b: binders start to shadow / capture live channels
            starts = [i for i, t in enumerate(toks) if t in ("let", "prc", "type", "exec", "assuming")] + [len(toks)]
            d = rng.randrange(len(starts) - 1)
            lo, hi = starts[d], starts[d + 1]
            if toks[lo] not in ("let", "prc"):
                continue
            body_start = next((i for i in range(lo, hi) if toks[i] == "="), lo)
            local = sorted({toks[i] for i in ids if lo <= i < hi and (i > body_start or (i > lo + 1 and toks[i + 1] == ":"))})
            if len(local) < 2:
                continue
            a, b = rng.sample(local, 2)
            for i in range(lo, hi):
                if i in ids and toks[i] == a and i != lo + 1:
                    t2[i] = b
        elif kind == "dropstmt" and len(seqs) >= 2:
            k = rng.randrange(len(seqs) - 1)
            del t2[seqs[k] + 1:seqs[k + 1] + 1]
        elif kind == "dupstmt" and len(seqs) >= 2:
            k = rng.randrange(len(seqs) - 1)
            t2[seqs[k] + 1:seqs[k] + 1] = t2[seqs[k] + 1:seqs[k + 1] + 1]
        elif kind == "mode":
            ms = [i for i, t in enumerate(toks) if t in MODES]
            if not ms:
                continue
            t2[rng.choice(ms)] = rng.choice(MODES[:4])
        elif kind == "delete" and ids:
            del t2[rng.choice(ids)]
        elif kind == "self" and ids:
            t2[rng.choice(ids)] = "self"
        else:
            continue
        if t2 == toks:
            continue
        # layout: one declaration per line keeps parse errors readable
        txt = " ".join(t2)
        txt = re.sub(r" (type|let|prc|exec) ", r"\n\1 ", " " + txt).strip() + "\n"
        out.append((name + "~" + kind + str(len(out)), txt))
    return out


def depth(x):
    if isinstance(x, dict):
        return 1 + max([depth(v) for v in x.values()] or [0])
    if isinstance(x, list):
        return 1 + max([depth(v) for v in x] or [0])
    return 0


def cases_for(texts):
    """real parser (dump of the parsed program) + real Typecheck verdict for every text that parses, is closed and is small enough for the model"""
    def run_chunk(chunk):
        w = vlib.Worker(timeout=15)
        out = []
        for name, text in chunk:
            r = w.call({"op": "forms", "text": text})
            if r.get("parse") != "ok":
                continue
            d = r["dump"]
            if len(d["nodes"]) > 300 or len(d["nodes"]) == 0 or depth(d["types"]) > 60 or depth(d["funcs"]) > 60 or depth(d["procs"]) > 60:
                continue
            c = w.call({"op": "check", "text": text})
            if c.get("nassumed"):
                continue
            if "crash" in c or "panic" in c or c.get("hang"):
                verdict = "crash"        # C09's concern; not a verdict
            else:
                verdict = "accept" if c.get("tc") == "ok" else "reject"
            out.append({"name": name, "text": text, "prog": d, "verdict": verdict, "detail": str(c.get("tc"))[:300]})
        w.stop()
        return out
    cases = []
    k = max(1, (len(texts) + vlib.NCPU - 1) // vlib.NCPU)
    with concurrent.futures.ThreadPoolExecutor(max_workers=vlib.NCPU) as ex:
        for o in ex.map(run_chunk, [texts[i:i + k] for i in range(0, len(texts), k)]):
            cases += o
    return [c for c in cases if c["verdict"] != "crash"]


def validate(cases, work, relax="none", cap=8, tag=""):
    """returns (failing cases, tlc errors, states)"""
    def one(kc):
        k, chunk = kc
        todo = list(chunk)
        fails, errs, st = [], [], 0
        while todo and len(fails) < cap:
            p = work.path("ty%s_%s_%d_%d.json" % (tag, relax, k, len(todo)))
            json.dump([{"prog": c["prog"], "verdict": c["verdict"]} for c in todo], open(p, "w"))
            r = vlib.tlc("TypingConf", CFG % relax, env={"VERIF_CASES": p}, workers=1, timeout=1500, work=work)
            os.remove(p)
            st += r["distinct"]
            if r["ok"]:
                break
            if r["violated"]:
                idx = int(vlib.last_state_vars(r["out"], ["i"]).get("i", "1"))
                fails.append(todo[idx - 1])
                todo = todo[idx:]
            else:
                errs.append((r["error_text"] or "timeout")[:800])
                break
        return fails, errs, st
    fails, errs, states = [], [], 0
    kk = max(1, (len(cases) + vlib.NCPU - 1) // vlib.NCPU)
    with concurrent.futures.ThreadPoolExecutor(max_workers=vlib.NCPU) as ex:
        for f, e, st in ex.map(one, list(enumerate([cases[i:i + kk] for i in range(0, len(cases), kk)]))):
            fails += f; errs += e; states += st
    return fails, errs, states


def classify(case, work):
    """which discipline does a wrongly ACCEPTED program break?  C05 if it is derivable without the substructural discipline, C06 if it is without
    the declaration of independence, else C07"""
    for relax, cls in (("wf", "C10"), ("sub", "C05"), ("indep", "C06")):
        f, e, _ = validate([case], work, relax=relax, tag="cls")
        if not f and not e:
            return cls
    return "C07"


def annotation_programs(rng, n):
    """programs whose verdict hinges on the well-formedness of ANNOTATION types (function signatures, cut annotations), alone and in pairs that are
    written with the same tokens but different head modes, in both orders: each annotation must be checked on its own (C10 / C07)"""
    structs = ["1 * B", "B * 1", "1 -* B", "B -* 1", "+{l : B}", "&{l : B, r : 1}", "B", "1", "1 * 1", "+{l : 1, r : R}", "R * 1", "lin /\\ rep B", "rep \\/ lin R",
               "(1 * B) * 1", "1 * (B * 1)"]
    anns = ["", "lin", "aff", "rep", "mul", "linear", "affine"]
    out = []
    for k in range(n):
        s1 = rng.choice(structs)
        s2 = s1 if rng.random() < 0.7 else rng.choice(structs)
        a1, a2 = rng.choice(anns), rng.choice(anns)
        t1, t2 = (a1 + " " + s1).strip(), (a2 + " " + s2).strip()
        defs = "type B = lin 1\ntype R = rep 1\n"
        shape = k % 3
        if shape == 0:
            body = "let f(x : %s) : %s = fwd self x\nlet g(y : %s) : %s = fwd self y\n" % (t1, t1, t2, t2)
        elif shape == 1:
            body = "let f(x : %s) : %s = fwd self x\nlet g(y : %s) : lin 1 = z : %s <- new fwd self y; drop z; close self\n" % (t1, t1, t2, t2)
        else:
            body = "let g(y : %s) : %s = fwd self y\nlet f(x : %s) : %s = fwd self x\nlet h(u : %s, w : %s) : lin 1 = drop u; drop w; close self\n" % (t2, t2, t1, t1, t1, t2)
        out.append(("ann/%d" % k, defs + body))
    return out


def shadow_programs():
    """every binder position of the language next to a live linear channel k, with k consumed directly / by a spawned call / by a spawned forward, before or
    after the binder, and the binder spelled freshly, like k, or like a later binder: whether a binder may take the name of a channel that is still
    owed a use is decided by Typing.tla (C05: no binder can silently discard, duplicate or shadow such a channel)"""
    head = "type U = lin 1\nlet g(a : U) : U = wait a; close self\n"
    consumes = ["wait k; ", "z <- new g(k); wait z; ", "z : U <- new (fwd self k); wait z; "]
    sites = [
        ("recvP-cont", "let f(k : U) : lin (1 -* 1) = %(pre)s<x, %(B)s> <- recv self; %(post)swait x; close self"),
        ("recvP-pay", "let f(k : U) : lin (1 -* 1) = %(pre)s<%(B)s, y> <- recv self; %(post)swait %(B)s; close self"),
        ("recvC-pay", "let f(k : U, c : lin (1 * 1)) : U = %(pre)s<%(B)s, r> <- recv c; %(post)swait %(B)s; wait r; close self"),
        ("recvC-cont", "let f(k : U, c : lin (1 * 1)) : U = %(pre)s<p, %(B)s> <- recv c; %(post)swait p; wait %(B)s; close self"),
        ("caseP", "let f(k : U) : lin &{a : 1} = %(pre)scase self ( a<%(B)s> => %(post)sclose self )"),
        ("caseC", "let f(k : U, c : lin +{a : 1}) : U = %(pre)scase c ( a<%(B)s> => %(post)swait %(B)s; close self )"),
        ("new", "let f(k : U) : U = %(pre)s%(B)s : U <- new close self; %(post)swait %(B)s; close self"),
        ("split", "let f(k : U, c : rep 1) : U = %(pre)s<%(B)s, s2> <- split c; %(post)sdrop %(B)s; drop s2; close self"),
        ("shiftP", "let f(k : U) : lin /\\ lin 1 = %(pre)s%(B)s <- shift self; %(post)sclose self"),
        ("shiftC", "let f(k : U, c : lin \\/ lin 1) : U = %(pre)s%(B)s <- shift c; %(post)swait %(B)s; close self"),
    ]
    out = []
    for sname, tpl in sites:
        for ci, cons in enumerate(consumes):
            for pos in ("pre", "post"):
                for B in ("b", "k", "z", "c"):      # c: the binder re-uses the name of the channel the form consumes (legal: it is dead by then)
                    text = head + tpl % {"B": B, "pre": cons if pos == "pre" else "", "post": cons if pos == "post" else ""} + "\n"
                    out.append(("shadow/%s-%d-%s-%s" % (sname, ci, pos, B), text))
    return out


def alias_mode_programs():
    """the mode of a channel reaches the declaration of independence through type NAMES: alias chains (and two aliases of one definition, in
    both declaration orders) to a unit type of every mode, used as the parameter of a function providing at every mode (C06), and as the type
    of a dropped / split parameter (C05)"""
    out = []
    modes = ["lin", "aff", "mul", "rep"]
    shapes = [("chain1", ["type A = L"], "A"), ("chain2", ["type A = L", "type B = A"], "B"), ("chain3", ["type A = L", "type B = A", "type C = B"], "C"),
              ("two", ["type A = L", "type B = L"], "B"), ("two-rev", ["type B = L", "type A = L"], "A"), ("late", ["type B = A", "type A = L"], "B"),
              ("mixed", ["type A = L", "type P = L * 1", "type B = A"], "B")]
    for m in modes:
        for sname, defs, last in shapes:
            for pm in modes:
                head = "type L = %s 1\n" % m + "\n".join(defs) + "\n"
                out.append(("alias/%s-%s-%s-wait" % (sname, m, pm), head + "let f(x : %s) : %s 1 = wait x; close self\n" % (last, pm)))
            out.append(("alias/%s-%s-drop" % (sname, m), "type L = %s 1\n" % m + "\n".join(defs) + "\nlet f(x : %s) : lin 1 = drop x; close self\n" % last))
            out.append(("alias/%s-%s-split" % (sname, m), "type L = %s 1\n" % m + "\n".join(defs) + "\nlet f(x : %s) : lin 1 = <a, b> <- split x; wait a; wait b; close self\n" % last))
    return out


def laundering_programs():
    """a channel of type T handed to a parameter / forwarded to a provider of type T' for every ordered pair of closely related types (same
    structure, one mode word different - at the root of a shift, inside it, on a plain type): accepted iff T = T'.  Type equality is the only
    thing that keeps a channel from being passed off at a mode with more structural rules (C05) or a weaker provider (C06)"""
    ts = ["rep \\/ lin 1", "rep \\/ aff 1", "rep \\/ mul 1", "rep \\/ rep 1", "mul \\/ lin 1", "aff \\/ lin 1", "lin /\\ aff 1", "lin /\\ rep 1", "lin /\\ lin 1",
          "aff /\\ rep 1", "lin 1", "aff 1", "mul 1", "rep 1", "lin (1 * 1)", "aff (1 * 1)", "lin +{l : 1}", "rep +{l : 1}",
          "rep \\/ lin (lin /\\ rep 1)", "rep \\/ lin (lin /\\ aff 1)"]
    out = []
    for i, t in enumerate(ts):
        for j, u in enumerate(ts):
            out.append(("launder/call-%d-%d" % (i, j), "let d(c : %s) : %s = fwd self c\nlet f(p : %s) : %s = z <- new d(p); fwd self z\n" % (u, u, t, u)))
            out.append(("launder/fwd-%d-%d" % (i, j), "let g(p : %s) : %s = fwd self p\n" % (t, u)))
    return out


def callcut_annotation_programs():
    """x : ANN S <- new f(p) for every mode of the callee and every way of writing the annotation's mode (omitted, each mode): accepted iff the
    annotation, with an omitted mode read as replicable, is the callee's type (C16: an unannotated type is replicable wherever it is written;
    C07: the annotation must equal the callee's type)"""
    out = []
    for S in ("1", "1 * 1", "+{l : 1}", "1 -* 1"):
        for M in ("lin", "aff", "mul", "rep"):
            for ANN in ("", "lin", "aff", "mul", "rep"):
                t = ("%s (%s)" % (M, S)) if " " in S else "%s %s" % (M, S)
                a = (("%s (%s)" % (ANN, S)) if " " in S else "%s %s" % (ANN, S)).strip()
                out.append(("callcut/%s-%s-%s" % (S.replace(" ", ""), M, ANN or "none"),
                            "let f(q : %s) : %s = fwd self q\nlet g(p : %s) : %s = x : %s <- new f(p); fwd self x\n" % (t, t, t, t, a)))
    return out


def corpus_texts(tier, seed):
    import rt
    texts = [(p["name"], p["text"]) for p in rt.fixed_corpus()]
    for f in sorted(glob.glob(os.path.join(vlib.VERIF, "corpus", "typing", "*.grits")) + glob.glob(os.path.join(vlib.VERIF, "corpus", "tc", "*.grits"))):
        texts.append(("corpus/" + os.path.basename(f), open(f).read()))
    pg = rt.pgen_programs(tier, seed)
    texts += [(p["name"], p["text"]) for p in (pg if tier != "quick" else pg[::2])]
    return texts


def stage(tier=None, seed=None):
    """cached per (tree, tier, seed): {cases, accepted, rejected, failures: [{name, text, verdict, cls}], errors, states}"""
    import rt
    tier = tier or vlib.tier()
    seed = vlib.seed() if seed is None else seed
    os.makedirs(os.path.join(vlib.WORKROOT, "cache"), exist_ok=True)
    vlib.build(("vworker", "vdrive"))
    key = "typing-%s-%s-%d" % (rt.tree_key(), tier, seed)
    cpath = os.path.join(vlib.WORKROOT, "cache", key + ".json")
    lock = open(cpath + ".lock", "w")
    fcntl.flock(lock, fcntl.LOCK_EX)
    try:
        if os.path.exists(cpath):
            return json.load(open(cpath))
        t0 = time.time()
        rng = random.Random(seed * 1009 + 3)
        with vlib.Work("typing") as work:
            texts = corpus_texts(tier, seed)
            try:
                import gen
                texts += [(p["name"], p["text"]) for p in gen.generated_programs(tier, seed, work)][: 150 if tier == "quick" else 2000]
            except Exception:
                pass
            texts += annotation_programs(rng, 240 if tier == "quick" else 3000)
            texts += shadow_programs()
            texts += alias_mode_programs()
            texts += laundering_programs()
            texts += callcut_annotation_programs()
            muts = token_mutants(texts, rng, 700 if tier == "quick" else 10000)
            cases = cases_for(texts + muts)
            fails, errs, states = validate(cases, work)
            out = []
            for c in fails:
                cls = classify(c, work) if c["verdict"] == "accept" else "C07"
                out.append({"name": c["name"], "text": c["text"], "verdict": c["verdict"], "detail": c["detail"], "cls": cls})
            res = {"cases": len(cases), "accepted": sum(1 for c in cases if c["verdict"] == "accept"), "rejected": sum(1 for c in cases if c["verdict"] == "reject"),
                   "texts": len(texts), "token_mutants": len(muts), "mutants_parsed_and_closed": sum(1 for c in cases if "~" in c["name"]),
                   "mutants_accepted": sum(1 for c in cases if "~" in c["name"] and c["verdict"] == "accept"),
                   "failures": out, "errors": errs, "states": states, "wall": time.time() - t0,
                   "samples": [{"name": c["name"], "verdict": c["verdict"], "text": c["text"][:300]} for c in cases[:2] + [c for c in cases if "~" in c["name"]][:2]]}
        json.dump(res, open(cpath + ".tmp", "w"))
        os.replace(cpath + ".tmp", cpath)
        return res
    finally:
        fcntl.flock(lock, fcntl.LOCK_UN)
        lock.close()


# directed families are also reported by the property they were built for (the relaxation classes attribute by cause, these by purpose)
FAMILY_PROPS = {"callcut": ("C16", "C07"), "launder": ("C05", "C06", "C07"), "alias": ("C06", "C05", "C16"), "shadow": ("C05",), "ann": ("C10",)}


def report(v, pid, st):
    """add the oracle's failures of class pid to the verdict collector; returns coverage fields"""
    for e in st["errors"]:
        v.harness_errors.append("TypingConf: " + e)
    for f in st["failures"]:
        fam = f["name"].split("/")[0].split("~")[0] if "/" in f["name"] else ""
        if f["cls"] != pid and pid not in FAMILY_PROPS.get(fam, ()):
            continue
        if f["verdict"] == "accept":
            what = "accepted, but it has no derivation in the type system (Typing.tla)%s: %s" % (
                {"C05": "; it has one once the substructural discipline is dropped", "C06": "; it has one once the declaration of independence is dropped", "C07": "",
                 "C10": "; it has one once annotation types need not be well-formed"}.get(f["cls"] if f["cls"] == pid else "", ""),
                f["text"].replace("\n", " ; ")[:400])
        else:
            what = "rejected (%s), but it is derivable in the type system (Typing.tla): %s" % (f["detail"][:160], f["text"].replace("\n", " ; ")[:400])
        v.violation("program %s is %s" % (f["name"], what), {"program": f["text"], "expected": "reject" if f["verdict"] == "accept" else "accept", "name": f["name"]},
                    {"kind": "typing-oracle", "verdict": f["verdict"], "mutant": "~" in f["name"]})
    return {"typing_oracle_programs": st["cases"], "typing_oracle_accepted": st["accepted"], "typing_oracle_rejected": st["rejected"],
            "typing_oracle_token_mutants_checked": st["mutants_parsed_and_closed"], "typing_oracle_token_mutants_accepted": st["mutants_accepted"],
            "typing_oracle_disagreements": len(st["failures"])}


if __name__ == "__main__":
    st = stage()
    print(json.dumps({k: v for k, v in st.items() if k not in ("failures", "samples")}))
    for f in st["failures"][:10]:
        print("----", f["name"], f["verdict"], f["cls"], f["detail"][:150])
        print(f["text"][:600])
