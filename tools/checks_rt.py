"""C01-C03 (and the runtime part of others): verdicts from the runtime campaign (tools/rt.py)."""
import json, time, collections
import vlib, rt


def _common_coverage(c, extra=None):
    exh, val = c["exhaustive"], c["validation"]
    runs = c["runs"]
    samples = []
    for p in c["progs"]:
        if p["runnable"] and len(samples) < 3:
            samples.append({"program": p["name"], "text": p["text"][:600]})
    if runs:
        r = runs[0]
        samples.append({"run": r["id"], "prints": r["prints"], "events_logged": r.get("nevents")})
    cov = {
        "states": max(1, exh["distinct"]), "transitions": max(1, exh["generated"]),
        "traces_validated_against_impl": val["accepted"] + (c.get("validation_np") or {}).get("accepted", 0),
        "np_traces_validated_against_GritsNP": {k: (c.get("validation_np") or {}).get(k) for k in ("traces", "accepted", "events", "selftest")},
        "samples": samples,
        "programs_total": len(c["progs"]), "programs_accepted_closed": sum(1 for p in c["progs"] if p["runnable"]),
        "programs_exhaustive": len(c["small"]), "exhaustive_modes": ["async", "sync"],
        "exhaustive_completed": bool(exh["ok"]), "exhaustive_depth": exh.get("depth"),
        "real_runs": len(runs), "real_run_matrix": c["matrix"], "trace_events_validated": val["events"],
        "traces_recorded": val["traces"], "traces_rejected": len(val["rejected"]),
        "binding_selftest": val.get("selftest"), "traces_too_long_to_validate": val.get("skipped_long", 0),
        "programs_non_terminating_within_bound": c.get("nonterminating", []),
        "runs_with_premature_heartbeat_timeout_not_judged": sum(1 for r in runs if r.get("premature")),
        "campaign_wall_s": round(c.get("wall", 0), 1),
        "np_model": {k: c.get("exhaustive_np", {}).get(k) for k in ("ok", "programs", "distinct", "generated", "timeout")},
        "spec_behaviours_replayed_through_the_gate": (c.get("replay") or {}).get("by_verdict"),
        "replayed_runs_validated_as_traces": {k: ((c.get("replay") or {}).get("validated") or {}).get(k) for k in ("traces", "accepted")},
        "ownership_traces_validated": (c.get("ownership") or {}).get("traces"),
    }
    if extra:
        cov.update(extra)
    return cov


ASSUME = ["a process step takes less than the 50 ms heartbeat time-out (runs whose time-out fired early are repeated, not judged)",
          "programs: the fixed corpus (repository examples, /verif/corpus/rt) plus the generated programs of this tier; exhaustive exploration only for programs that spawn at most the size limit of processes",
          "TLC explores the specification GritsRT.tla; it transfers to the code through the validated traces (code subset-of spec) for the runs recorded"]


def _model_issues(c, v, invs):
    """model-level counterexamples: not a verdict by themselves (must be reproduced on the real code)"""
    exh = c["exhaustive"]
    if exh["timeout"]:
        v.notes.append("exhaustive exploration hit its time limit; model result not claimed")
    for name, pp in exh["per_prog"].items():
        if pp.get("violated") in invs:
            v.harness_errors.append("model counterexample for %s in %s (invariant %s) was not reproduced on the real code: "
                                    "specification and code disagree; resolve before trusting this check" % (name, invs, pp["violated"]))
    if not exh["ok"] and not exh["per_prog"] and not exh["timeout"]:
        v.harness_errors.append("TLC failed: " + str(exh.get("error_text"))[:800])
    enp = c.get("exhaustive_np") or {"ok": True, "per_prog": {}, "timeout": False}
    np_invs = {"NoProtocolError": "NoProtocolError", "ExpectedOutcome": "NPExpectedOutcome", "QuiescentClean": None}
    for name, pp in enp["per_prog"].items():
        if pp.get("violated") and pp.get("violated") in [np_invs.get(i) for i in invs if np_invs.get(i)]:
            v.harness_errors.append("model counterexample for %s in the non-polarized specification GritsNP (invariant %s) was not reproduced on the real code" % (name, pp["violated"]))
    if not enp["ok"] and not enp["per_prog"] and not enp.get("timeout"):
        v.harness_errors.append("TLC failed on GritsNP: " + str(enp.get("error_text"))[:800])
    val = c["validation"]
    valnp = c.get("validation_np") or {"rejected": []}
    for r in val["rejected"] + valnp["rejected"]:
        if r.get("harness"):
            v.harness_errors.append(r["why"])
        else:
            v.notes.append("conformance-lost at event %s of trace %s (%s): %s" % (r["at"], r["id"], r["why"], json.dumps(r["event"])[:300]))
    for r in ((c.get("replay") or {}).get("validated") or {}).get("rejected", []):
        if r.get("harness"):
            v.harness_errors.append(r["why"])
        elif (r.get("event") or {}).get("e") != "quiesce":
            v.notes.append("a gate-replayed run is not a behaviour of the specification it was generated from: trace %s at event %s (%s)" % (r["id"], r["at"], r["why"]))
    for st in (val.get("selftest") or {}, valnp.get("selftest") or {}):
        if st.get("ran") and not st.get("ok"):
            v.harness_errors.append("binding self-test failed: " + json.dumps(st))


def c01():
    t0 = time.time()
    c = rt.campaign()
    v = vlib.Verdict("C01")
    text = {p["name"]: p["text"] for p in c["progs"]}
    cfree = {p["name"]: p.get("cfree") for p in c["progs"]}
    for r in c["runs"]:
        if r["crash"]:
            v.violation("accepted closed program %s dies at run time in mode %s: %s" % (r["prog"], r["mode"], r["crash"][-400:]),
                        {"program": text[r["prog"]], "run": {k: r[k] for k in ("id", "mode", "gomaxprocs", "monitor", "yield", "seed")}, "crash": r["crash"]},
                        {"program": r["prog"], "mode": r["mode"], "np_with_contraction": r["mode"] == "np" and cfree.get(r["prog"]) is False})
        elif r["hang"] and not r.get("nonterminating"):
            v.notes.append("run %s did not finish within the time limit (not judged)" % r["id"])
    # behaviours of the specifications that end in a run-time error, stepped through the real interpreter by the gate
    for r in (c.get("replay") or {}).get("records", []):
        if r["verdict"] == "error-reproduced":
            v.violation("accepted closed program %s dies at run time in mode %s when it follows the schedule TLC found in the specification (error of the model: %s): %s"
                        % (r["prog"], r["mode"], r["spec_err"], (r["crash"] or "")[-300:]),
                        {"program": text[r["prog"]], "run": r["id"], "plan": r["plan"], "crash": r["crash"], "spec_error": r["spec_err"]},
                        {"program": r["prog"], "mode": r["mode"], "np_with_contraction": r["mode"] == "np" and cfree.get(r["prog"]) is False})
        elif r["verdict"] == "error-not-reproduced":
            v.notes.append("model-level error %s of %s (%s) was not reproduced by the gate replay (%s)" % (r["spec_err"], r["prog"], r["mode"], r["why"]))
        elif r["verdict"] == "outcome" and r["crash"]:
            v.violation("accepted closed program %s dies at run time in mode %s under a schedule of the specification that ends normally there: %s" % (r["prog"], r["mode"], r["crash"][-300:]),
                        {"program": text[r["prog"]], "run": r["id"], "plan": r["plan"], "crash": r["crash"]},
                        {"program": r["prog"], "mode": r["mode"], "np_with_contraction": r["mode"] == "np" and cfree.get(r["prog"]) is False})
    _model_issues(c, v, ("NoProtocolError", "OneMessagePerChannel", "OneListener"))
    cov = _common_coverage(c, {"crashes_observed": sum(1 for r in c["runs"] if r["crash"]),
                               "modes_run_on_real_code": ["async", "sync", "np"]})
    vlib.write_evidence("C01", "model_checking", cov, time.time() - t0, len(v.violations), ASSUME)
    return v.finish()


def _blocked_bad(r):
    bad = []
    for b in r["blocked"] or []:
        if r["mode"] == "async":
            bad.append(b)
        elif b["last"] != "send":
            bad.append(b)
    return bad


def c02():
    t0 = time.time()
    c = rt.campaign()
    v = vlib.Verdict("C02")
    text = {p["name"]: p["text"] for p in c["progs"]}
    judged = 0
    for r in c["runs"]:
        if r["crash"] or r["hang"] or r["mode"] == "np" or r["late"] or r.get("nonterminating") or r.get("premature"):
            continue
        if _blocked_bad(r) and r.get("reruns") is None and not r.get("resettled"):
            v.notes.append("%s: processes blocked at quiescence, but the run was not repeated (more suspects than the repetition budget): not judged" % r["id"])
            continue
        if r.get("reruns") is not None and r.get("confirm", 0) == 0:
            continue          # (printed less than the reference once, never again in three repetitions: the run was cut short, its survivors are not stuck)
        judged += 1
        bad = _blocked_bad(r)
        if bad:
            sig = {"program": r["prog"], "stuck_kinds": sorted({b["kind"] for b in bad}),
                   "all_top_level_on_own_channel": all(len(b["p"]) == 1 and b["c"] == [0, b["p"][0]] for b in bad)}
            v.violation("%s (%s): at quiescence %d process(es) stuck: %s" % (r["prog"], r["mode"], len(bad), json.dumps(bad)[:300]),
                        {"program": text[r["prog"]], "run": r["id"], "stuck": bad}, sig)
    for r in (c.get("replay") or {}).get("records", []):
        if r["verdict"] not in ("agree", "diverged") or r["crash"] or r.get("hang") or r.get("late") or r.get("premature") or r["mode"] == "np" or r.get("blocked") is None:
            continue
        judged += 1
        bad = _blocked_bad(r)
        if bad:
            sig = {"program": r["prog"], "stuck_kinds": sorted({b["kind"] for b in bad}),
                   "all_top_level_on_own_channel": all(len(b["p"]) == 1 and b["c"] == [0, b["p"][0]] for b in bad)}
            v.violation("%s (%s): after following a schedule of the specification through the gate, %d process(es) are stuck at quiescence: %s" % (r["prog"], r["mode"], len(bad), json.dumps(bad)[:300]),
                        {"program": text[r["prog"]], "run": r["id"], "plan": r["plan"], "stuck": bad}, sig)
    _model_issues(c, v, ("QuiescentClean",))
    cov = _common_coverage(c, {"runs_judged_at_quiescence": judged})
    vlib.write_evidence("C02", "model_checking", cov, time.time() - t0, len(v.violations), ASSUME)
    return v.finish()


def c03():
    t0 = time.time()
    c = rt.campaign()
    v = vlib.Verdict("C03")
    info = {p["name"]: p for p in c["progs"]}
    by = collections.defaultdict(list)
    for r in c["runs"]:
        if r["crash"] or r["hang"] or r["late"] or r["prints"] is None or r.get("nonterminating") or r.get("premature"):
            continue
        if r["mode"] == "np" and not info[r["prog"]]["cfree"]:
            continue
        if r.get("reruns") is not None and r.get("confirm", 0) == 0:
            continue      # (deviated once from the reference, never again in the repetitions of the same configuration: a starved run)
        by[r["prog"]].append(r)
    compared = 0
    for name, rs in by.items():
        bags = collections.defaultdict(list)
        for r in rs:
            bags[tuple(sorted(r["prints"]))].append(r["id"])
        compared += len(rs)
        if len(bags) > 1:
            v.violation("%s prints different multisets on different runs: %s" % (name, json.dumps({" ".join(k): ids[:2] for k, ids in bags.items()})[:500]),
                        {"program": info[name]["text"], "bags": {" ".join(k): ids for k, ids in bags.items()}}, {"program": name})
        # completion status: blocked sets of polarized async runs must agree (empty, see C02) - covered by C02
    # schedules chosen by TLC in the specifications and forced on the real interpreter by the gate: the outcome must be the one the other runs gave
    replayed = 0
    for r in (c.get("replay") or {}).get("records", []):
        if r["verdict"] not in ("agree", "outcome", "diverged") or r["crash"] or r["prints"] is None or r.get("hang") or r.get("late") or r.get("premature"):
            continue     # (a run that left the plan finished on its own: what it printed is an observation of the real code all the same)
        if r["mode"] == "np" and not info[r["prog"]]["cfree"]:
            continue
        replayed += 1
        ref = c["expect"].get(r["prog"])
        if ref and ref.get("unique") and sorted(r["prints"]) != sorted(ref["bag"]):
            v.violation("%s (%s) printed %s when made to follow a schedule of the specification; every other run / the reference gives %s"
                        % (r["prog"], r["mode"], " ".join(sorted(r["prints"])), " ".join(sorted(ref["bag"]))),
                        {"program": info[r["prog"]]["text"], "run": r["id"], "plan": r["plan"], "printed": r["prints"], "reference_bag": ref["bag"]}, {"program": r["prog"]})
        elif r["verdict"] == "outcome":
            v.harness_errors.append("replay of %s followed the plan but printed %s where the specification predicts %s, and the reference agrees with the code: GritsRT/GritsNP disagree with Sax"
                                    % (r["id"], r["prints"], r["spec_out"]))
    _model_issues(c, v, ("ExpectedOutcome",))
    cov = _common_coverage(c, {"runs_compared": compared, "programs_compared": len(by), "gate_replays_compared": replayed,
                               "np_compared_for_contraction_free_programs": sum(1 for n in by if info[n]["cfree"])})
    vlib.write_evidence("C03", "model_checking", cov, time.time() - t0, len(v.violations),
                        ASSUME + ["every interleaving of the exhaustively explored programs ends with the multiset the real asynchronous run printed (invariant ExpectedOutcome)"])
    return v.finish()


def c04():
    """observed results and print order against the reference semantics Sax.tla"""
    t0 = time.time()
    c = rt.campaign()
    v = vlib.Verdict("C04")
    info = {p["name"]: p for p in c["progs"]}
    sx = c["sax"]
    judged = bag_checked = np_bounds = 0
    for r in c["runs"]:
        if r["crash"] or r["hang"] or r["late"] or r["prints"] is None or r.get("nonterminating") or r.get("premature"):
            continue
        e = sx.get(r["prog"])
        if not e:
            continue
        if e["sax_err"] or e["sax_left"] or not e["unique"]:
            continue  # the reference itself does not complete this program: reported below
        judged += 1
        want = collections.Counter(e["bag"])
        got = collections.Counter(r["prints"])
        exact = r["mode"] != "np" or info[r["prog"]]["cfree"]
        if exact:
            bag_checked += 1
            if want != got and r.get("reruns") is not None and r.get("confirm", 0) == 0:
                v.notes.append("%s printed %s once (reference: %s) but none of %d repetitions of the same configuration did: not judged" %
                               (r["id"], " ".join(sorted(r["prints"]))[:80], " ".join(e["bag"])[:80], r["reruns"]))
            elif want != got:
                v.violation("%s (%s) printed %s, the SAX semantics gives %s" % (r["prog"], r["mode"], " ".join(sorted(r["prints"])), " ".join(e["bag"])),
                            {"program": info[r["prog"]]["text"], "run": r["id"], "printed": r["prints"], "reference_bag": e["bag"]},
                            {"program": r["prog"], "mode": r["mode"], "kind": "bag"})
        else:
            # non-polarized execution of a program with contraction may duplicate a provider before its first interaction:
            # admitted multisets = same labels, each at least as often as in the reference
            np_bounds += 1
            if (set(want) != set(got) or any(got[l] < want[l] for l in want)) and r.get("reruns") is not None and r.get("confirm", 0) == 0:
                v.notes.append("%s (np, with contraction) printed less than the reference once, not again in the repetitions: not judged" % r["id"])
            elif set(want) != set(got) or any(got[l] < want[l] for l in want):
                v.violation("%s (np, with contraction) printed %s; not admitted by the SAX semantics (%s, eager copies may only add repetitions)" %
                            (r["prog"], " ".join(sorted(r["prints"])), " ".join(e["bag"])),
                            {"program": info[r["prog"]]["text"], "run": r["id"], "printed": r["prints"], "reference_bag": e["bag"]},
                            {"program": r["prog"], "mode": r["mode"], "kind": "bag-np"})
    so = c["sax_orders"]
    byid = {r["id"]: r for r in c["runs"]}
    for rej in so["rejected"]:
        for rid in rej["ids"][:3]:
            r = byid.get(rid, {})
            e = sx.get(rej["prog"], {})
            if collections.Counter(rej["prints"]) != collections.Counter(e.get("bag", [])):
                continue  # already reported as a multiset violation
            v.violation("%s (%s) printed the sequence %s: %s" % (rej["prog"], r.get("mode"), " ".join(rej["prints"]), rej["why"]),
                        {"program": info[rej["prog"]]["text"], "run": rid, "printed": rej["prints"], "why": rej["why"]},
                        {"program": rej["prog"], "mode": r.get("mode"), "kind": "order"})
    for e in so["errors"]:
        v.harness_errors.append("SaxTrace: " + e)
    st = so.get("selftest") or {}
    if st.get("ran") and not st.get("ok"):
        v.harness_errors.append("SaxTrace binding self-test failed: " + json.dumps(st))
    cf = c["sax_confluence"]
    if not cf["ok"] and not cf.get("timeout"):
        v.harness_errors.append("the reference semantics is not confluent / not clean on an accepted program (invariant %s): %s" %
                                (cf.get("violated"), (cf.get("tail") or cf.get("error_text") or "")[-1500:]))
    bad_ref = [n for n, e in sx.items() if e["sax_err"] or e["sax_left"] or not e["unique"]]
    for n in bad_ref[:5]:
        v.notes.append("reference semantics does not complete accepted program %s cleanly (err=%r, threads left=%d): not judged here; C01/C02 judge the real runs"
                       % (n, sx[n]["sax_err"], sx[n]["sax_left"]))
    _model_issues(c, v, ("ExpectedOutcome",))
    cov = _common_coverage(c, {
        "states": max(1, cf.get("distinct", 0) + so.get("states", 0)), "transitions": max(1, cf.get("generated", 0) + so.get("states", 0)),
        "traces_validated_against_impl": so["accepted"],
        "runs_judged": judged, "runs_multiset_equal_to_reference": bag_checked, "np_runs_with_contraction_judged_by_bounds": np_bounds,
        "print_sequences_observed": so["observations"], "print_sequences_distinct": so.get("distinct_observations"),
        "print_sequences_accepted_by_SaxTrace": so["accepted"], "print_sequences_rejected": len(so["rejected"]), "saxtrace_selftest": so.get("selftest"),
        "reference_programs_completed": len(sx) - len(bad_ref), "reference_programs_not_completed": bad_ref[:10],
        "reference_confluence": {k: cf.get(k) for k in ("ok", "programs", "distinct", "generated", "timeout")},
        "interpreter_spec_outcomes_checked_against_reference": "GritsRT invariant ExpectedOutcome uses the Sax multiset (exhaustive, both polarized modes)"})
    vlib.write_evidence("C04", "model_checking", cov, time.time() - t0, len(v.violations),
                        ASSUME + ["the reference is the futures-style SAX machine of spec/Sax.tla; its own confluence, progress and single-assignment are model-checked per program (all interleavings) for the small programs",
                                  "np runs of programs with contraction are judged by multiset bounds only (eager duplication), not by order"])
    return v.finish()


def c14():
    """lexical scoping: alpha-equivalent renderings (naming schemes, renamed types / functions / labels, permuted declarations) of the same
    generated tree must get the same verdict and, when accepted, the same outcome - the one the specifications assign to every rendering"""
    t0 = time.time()
    c = rt.campaign()
    v = vlib.Verdict("C14")
    groups = collections.defaultdict(list)
    for p in c["progs"]:
        if p.get("ast") is not None:
            groups[p["ast"]].append(p)
    runs_by = collections.defaultdict(list)
    for r in c["runs"]:
        runs_by[r["prog"]].append(r)
    sx = c["sax"]
    verdict_groups = outcome_groups = variants = 0
    model_mismatch = 0
    for ast, ps in sorted(groups.items()):
        variants += len(ps)
        def verdict(p):
            fe = p["fe"]
            if fe.get("crash") or fe.get("hang"):
                return "crash"
            if fe.get("parse") != "ok":
                return "parse-error"
            return "accept" if fe.get("tc") == "ok" else "reject"
        vs = collections.defaultdict(list)
        for p in ps:
            vs[verdict(p)].append(p)
        verdict_groups += 1
        if "parse-error" in vs:
            v.harness_errors.append("rendering does not parse: %s: %s" % (vs["parse-error"][0]["name"], vs["parse-error"][0]["fe"].get("parse")))
            continue
        if len(vs) > 1:
            a, b = [x[0] for x in vs.values()][:2]
            v.violation("alpha-equivalent programs get different verdicts: %s is %sed (%s) but %s is %sed" %
                        (a["name"], verdict(a), str(a["fe"].get("tc"))[:160], b["name"], verdict(b)),
                        {"program_a": a["text"], "program_b": b["text"], "verdict_a": a["fe"], "verdict_b": b["fe"]},
                        {"kind": "verdict", "schemes": sorted({p["scheme"] for p in ps})})
            continue
        if "accept" not in vs:
            continue
        # the specification's outcome must itself be invariant (guards the oracle)
        refbags = {tuple(sx[p["name"]]["bag"]) for p in ps if p["name"] in sx and sx[p["name"]]["unique"]}
        if len(refbags) > 1:
            model_mismatch += 1
            v.harness_errors.append("Sax.tla assigns different multisets to renderings of tree %s" % ast)
            continue
        outcome_groups += 1
        for mode in ("async", "sync", "np"):
            bags = collections.defaultdict(list)
            stuck = collections.defaultdict(list)
            for p in ps:
                for r in runs_by.get(p["name"], []):
                    if r["mode"] != mode or r["hang"] or r["late"] or r["prints"] is None or r.get("nonterminating") or r.get("premature"):
                        continue
                    if mode == "np" and not p["cfree"]:
                        continue
                    if r.get("reruns") is not None and r.get("confirm", 0) == 0 and not r["crash"]:
                        continue      # (deviated once from the reference, never again in three repetitions of the same configuration: a run cut short)
                    key = "CRASH" if r["crash"] else " ".join(sorted(r["prints"]))
                    bags[key].append((p, r))
                    if not r["crash"] and mode != "np":
                        stuck[len(_blocked_bad(r)) > 0].append((p, r))
            if len(bags) > 1:
                (ka, la), (kb, lb) = list(bags.items())[:2]
                v.violation("alpha-equivalent programs behave differently in mode %s: %s prints [%s], %s prints [%s]" % (mode, la[0][0]["name"], ka[:120], lb[0][0]["name"], kb[:120]),
                            {"program_a": la[0][0]["text"], "program_b": lb[0][0]["text"], "run_a": la[0][1]["id"], "run_b": lb[0][1]["id"], "outcome_a": ka, "outcome_b": kb},
                            {"kind": "outcome", "mode": mode})
            elif len(stuck) > 1:
                a, b = stuck[True][0], stuck[False][0]
                v.violation("alpha-equivalent programs differ in completion (mode %s): %s leaves a stuck process, %s does not" % (mode, a[0]["name"], b[0]["name"]),
                            {"program_a": a[0]["text"], "program_b": b[0]["text"], "run_a": a[1]["id"], "run_b": b[1]["id"], "stuck": _blocked_bad(a[1])},
                            {"kind": "completion", "mode": mode})
    _model_issues(c, v, ())
    g = [ps for ps in groups.values()]
    cov = _common_coverage(c, {
        "traces_validated_against_impl": sum(1 for ps in g for p in ps if p["name"] in sx),
        "trees": len(groups), "renderings": variants, "groups_verdict_compared": verdict_groups, "groups_outcome_compared": outcome_groups,
        "ill_typed_trees": sum(1 for a in groups if a < 0),
        "schemes": sorted({p["scheme"] + ("/" + p["ids"] if p.get("ids") and p["ids"] != "plain" else "") for ps in g for p in ps}),
        "reference_outcome_invariant_for_all_groups": model_mismatch == 0,
        "samples": [{"tree": ps[0]["ast"], "renderings": [p["name"] for p in ps], "text_a": ps[0]["text"][:500], "text_b": ps[-1]["text"][:500]} for ps in g[:2]]})
    vlib.write_evidence("C14", "model_checking", cov, time.time() - t0, len(v.violations),
                        ASSUME + ["renderings of one tree differ only in binder spellings (unique / per-declaration / re-use of consumed spellings / spellings of other declarations' channels), in the spellings of type names, function names and labels, in the use of self vs the provider's bound name, and in declaration order",
                                  "the expected outcome of every rendering is the multiset Sax.tla computes for its own dump; the group check adds that these are equal"])
    return v.finish()


CHECKS = {"C01": c01, "C02": c02, "C03": c03, "C04": c04, "C14": c14}
