#!/usr/bin/env python3
"""seedcheck.py <name> <check ids...> [--tier quick|thorough] [--seed N]
Runs the given checks against the stored seeded change /verif/seeded/<name>/patch.diff IN ISOLATION: a scratch worktree of /repo HEAD
with the patch applied and a scratch copy of /verif whose harness links it (VERIF_REPO). /repo itself is never touched.
Records the outcome under "checks" in seeded/<name>/meta.json (exit 1 = caught)."""
import sys, os, subprocess, json, shutil, time
ENV = dict(os.environ, GOFLAGS="-mod=mod", GOPROXY="off", GOSUMDB="off", GOTOOLCHAIN="local")


def sh(cmd, cwd=None, timeout=7200, env=None):
    p = subprocess.run(cmd, shell=True, cwd=cwd, env=env or ENV, stdout=subprocess.PIPE, stderr=subprocess.STDOUT, text=True, timeout=timeout)
    return p.returncode, p.stdout


def main():
    args = [a for a in sys.argv[1:] if not a.startswith("--")]
    tier = sys.argv[sys.argv.index("--tier") + 1] if "--tier" in sys.argv else "quick"
    seed = sys.argv[sys.argv.index("--seed") + 1] if "--seed" in sys.argv else None
    if "--tier" in sys.argv:
        args.remove(tier)
    if seed:
        args.remove(seed)
    name, checks = args[0], args[1:]
    src = os.path.join("/verif/seeded", name)
    wt, vs = "/tmp/seedchk_" + name, "/tmp/vs_" + name
    sh("git -C /repo worktree remove --force %s" % wt)
    shutil.rmtree(wt, ignore_errors=True)
    shutil.rmtree(vs, ignore_errors=True)
    rc, out = sh("git -C /repo worktree add --detach %s HEAD" % wt)
    results = {}
    try:
        rc, out = sh("git apply --3way %s/patch.diff" % src, cwd=wt)
        if rc != 0:
            print("patch does not apply:", out[-600:])
            return 2
        sh("git reset -q", cwd=wt)
        os.makedirs(vs)
        sh("rsync -a --exclude .git --exclude .work --exclude .build --exclude out --exclude __pycache__ /verif/ %s/" % vs)
        gm = os.path.join(vs, "harness", "go.mod")
        gmtext = open(gm).read().replace("replace grits => /repo", "replace grits => " + wt)
        open(gm, "w").write(gmtext)
        env = dict(ENV, VERIF_REPO=wt)
        if seed:
            env["VERIF_SEED"] = seed
        for c in checks:
            t0 = time.time()
            rc, out = sh("python3 tools/vcheck.py %s --tier %s" % (c, tier), cwd=vs, env=env)
            lines = [l[:300] for l in out.splitlines() if l.startswith(("VIOLATION", "KNOWN", "HARNESS", "NOTE", "BUILD")) or l.startswith("   ")]
            results[c] = {"exit": rc, "secs": round(time.time() - t0), "tier": tier, "lines": lines[:8]}
            if rc == 2:
                results[c]["tail"] = out[-1500:]
            print(name, c, "exit", rc, "in %ds" % results[c]["secs"])
            for l in lines[:8]:
                print("   ", l)
        mp = os.path.join(src, "meta.json")
        m = json.load(open(mp))
        m.setdefault("checks", {}).update(results)
        json.dump(m, open(mp, "w"), indent=1)
    finally:
        sh("git -C /repo worktree remove --force %s" % wt)
        shutil.rmtree(wt, ignore_errors=True)
        shutil.rmtree(vs, ignore_errors=True)
    return 0


if __name__ == "__main__":
    sys.exit(main())
