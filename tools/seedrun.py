#!/usr/bin/env python3
"""seedrun.py <seed dir> <name> <check ids...>  [--no-store]
Confirms a seeded change in a scratch worktree of /repo HEAD (applies, builds with and without the verif tag, the suite passes,
the demonstration fails with it and passes without it), stores it under /verif/seeded/<name>/, then runs the given checks
(quick tier) against it IN ISOLATION: a scratch copy of /verif whose harness links the patched worktree (VERIF_REPO), so
/repo itself and the shared build cache are never touched and several seeds can be evaluated at the same time.
(tools/seedtest.py does the same by applying the patch to /repo itself.)"""
import sys, os, subprocess, json, shutil, time
ENV = dict(os.environ, GOFLAGS="-mod=mod", GOPROXY="off", GOSUMDB="off", GOTOOLCHAIN="local")
FLAKY = ("TestSimpleDUP", "TestSimpleMultipleProvidersInitially")


def sh(cmd, cwd=None, timeout=2400, env=None):
    p = subprocess.run(cmd, shell=True, cwd=cwd, env=env or ENV, stdout=subprocess.PIPE, stderr=subprocess.STDOUT, text=True, timeout=timeout)
    return p.returncode, p.stdout


def main():
    args = [a for a in sys.argv[1:] if not a.startswith("--")]
    src, name, checks = args[0], args[1], args[2:]
    store = "--no-store" not in sys.argv
    meta = json.load(open(os.path.join(src, "seed_meta.json")))
    wt = "/tmp/seedchk_" + name
    vs = "/tmp/vs_" + name
    sh("git -C /repo worktree remove --force %s" % wt)
    shutil.rmtree(wt, ignore_errors=True)
    shutil.rmtree(vs, ignore_errors=True)
    rc, out = sh("git -C /repo worktree add --detach %s HEAD" % wt)
    report = {"name": name, "property": meta.get("property"), "needs": meta.get("needs")}
    try:
        rc, out = sh("git apply --3way %s/seed.patch" % src, cwd=wt)
        report["applies"] = rc == 0
        if rc != 0:
            report["apply_out"] = out[-500:]
            print(json.dumps(report, indent=1))
            return 1
        sh("git reset -q", cwd=wt)
        rc1, _ = sh("go build ./...", cwd=wt)
        rc2, _ = sh("go build -tags verif ./...", cwd=wt)
        report["builds"] = rc1 == 0 and rc2 == 0
        rc, out = sh("go test -vet=off -count=1 ./cmd/ ./parser/ ./process/ ./types/", cwd=wt)
        fails = [l for l in out.splitlines() if l.startswith("--- FAIL")]
        # the runtime tests of grits/cmd use 50 ms time-outs and fail at random on a loaded machine: a failing test is re-run alone (up to 4 times)
        still = []
        for f in fails:
            tn = f.split()[2]
            if any(x in tn for x in FLAKY):
                continue
            ok = False
            for _ in range(8):
                rc1, _o = sh("go test -vet=off -count=1 -run '^%s$' ./cmd/ ./parser/ ./process/ ./types/" % tn, cwd=wt)
                if rc1 == 0:
                    ok = True
                    break
                time.sleep(2)
            if not ok:
                # does the same test fail on the UNPATCHED tree under the same conditions (loaded machine)?  then it says nothing about the change
                rcd, diff0 = sh("git diff", cwd=wt)
                open(wt + ".tmp.patch", "w").write(diff0)
                sh("git apply -R %s.tmp.patch" % wt, cwd=wt)
                base_fail = 0
                for _ in range(4):
                    rc2, _o = sh("go test -vet=off -count=1 -run '^%s$' ./cmd/ ./parser/ ./process/ ./types/" % tn, cwd=wt)
                    base_fail += rc2 != 0
                sh("git apply %s.tmp.patch" % wt, cwd=wt)
                os.remove(wt + ".tmp.patch")
                report.setdefault("environmental", []).append("%s fails %d/4 on the unpatched tree too" % (tn, base_fail))
                if base_fail < 2:
                    still.append(f)
        fails = still if (rc != 0 and fails) else fails
        report["suite_passes"] = rc == 0 or not still or all(any(x in f for x in FLAKY) for f in still)
        report["suite_fail_lines"] = fails[:5]
        if os.path.isdir(os.path.join(src, "seed_demo")):
            shutil.copytree(os.path.join(src, "seed_demo"), os.path.join(wt, "seed_demo"), dirs_exist_ok=True)
        demo = meta.get("demo_cmd", "")
        rc, out = sh(demo, cwd=wt, timeout=900)
        report["demo_fails_with_change"] = rc != 0
        rc, diff = sh("git diff", cwd=wt)
        open(wt + ".patch", "w").write(diff)
        sh("git apply -R %s.patch" % wt, cwd=wt)        # (git stash is shared between worktrees: not used)
        rc, out = sh(demo, cwd=wt, timeout=900)
        report["demo_passes_without"] = rc == 0
        if rc != 0:
            report["demo_without_out"] = out[-600:]
        sh("git apply %s.patch" % wt, cwd=wt)
        os.remove(wt + ".patch")
        confirmed = all(report.get(k) for k in ("applies", "builds", "suite_passes", "demo_fails_with_change", "demo_passes_without"))
        report["confirmed"] = confirmed
        dst = os.path.join("/verif/seeded", name)
        if store and confirmed:
            os.makedirs(dst, exist_ok=True)
            open(os.path.join(dst, "patch.diff"), "w").write(diff)
            if os.path.isdir(os.path.join(src, "seed_demo")):
                shutil.copytree(os.path.join(src, "seed_demo"), os.path.join(dst, "demo"), dirs_exist_ok=True)
        results = {}
        if confirmed and checks:
            shutil.rmtree(os.path.join(wt, "seed_demo"), ignore_errors=True)
            os.makedirs(vs)
            sh("rsync -a --exclude .git --exclude .work --exclude .build --exclude out --exclude __pycache__ /verif/ %s/" % vs)
            gm = os.path.join(vs, "harness", "go.mod")
            gmtext = open(gm).read().replace("replace grits => /repo", "replace grits => " + wt)
            open(gm, "w").write(gmtext)
            env = dict(ENV, VERIF_REPO=wt)
            for c in checks:
                t0 = time.time()
                rc, out = sh("python3 tools/vcheck.py %s --tier quick" % c, cwd=vs, timeout=3000, env=env)
                lines = [l[:260] for l in out.splitlines() if l.startswith(("VIOLATION", "KNOWN", "HARNESS", "NOTE", "BUILD")) or l.startswith("   ")]
                results[c] = {"exit": rc, "secs": round(time.time() - t0), "lines": lines[:8]}
                if rc == 2:
                    results[c]["tail"] = out[-1500:]
        report["checks"] = results
        if store and confirmed:
            old = {}
            mp = os.path.join(dst, "meta.json")
            if os.path.exists(mp):
                old = json.load(open(mp)).get("checks", {})
            old.update(results)
            json.dump({"property": meta.get("property"), "summary": meta.get("summary"), "needs": meta.get("needs"), "demo_cmd": meta.get("demo_cmd"),
                       "files_changed": meta.get("files_changed"),
                       "confirmed": {k: report.get(k) for k in ("applies", "builds", "suite_passes", "demo_fails_with_change", "demo_passes_without")},
                       "what_i_ran": "tools/seedrun.py: scratch worktree of /repo HEAD, git apply --3way, go build (with/without -tags verif), go test of the four packages, "
                                     "demo with and without the change; then the listed checks (quick tier) from a scratch copy of /verif linked against the patched worktree",
                       "checks": old}, open(mp, "w"), indent=1)
        print(json.dumps(report, indent=1))
    finally:
        sh("git -C /repo worktree remove --force %s" % wt)
        shutil.rmtree(wt, ignore_errors=True)
        shutil.rmtree(vs, ignore_errors=True)
    return 0


if __name__ == "__main__":
    sys.exit(main())
