#!/bin/bash
# allquick.sh [seed] : run every registered quick check once with the given VERIF_SEED and print exit codes / VIOLATION lines (health check of the unchanged tree)
seed=${1:-1}
cd "$(dirname "$0")/.."
export VERIF_SEED=$seed
python3 tools/vcheck.py --setup > /dev/null 2>&1
for c in C01 C02 C03 C04 C05 C06 C07 C08 C09 C10 C11 C12 C13 C14 C15 C16 C17 C18 C19; do
  s=$(date +%s)
  out=$(python3 tools/vcheck.py $c --tier ${2:-quick} 2>&1); rc=$?
  e=$(date +%s)
  echo "== $c seed=$seed exit=$rc secs=$((e-s))"
  echo "$out" | grep -E "^(VIOLATION|HARNESS|BUILD|   )" | cut -c1-300 | head -8
done
