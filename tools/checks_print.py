"""C15: print / parse round trip of session types (Print.tla) and of process terms."""
import json, os, time, random, itertools, concurrent.futures
import vlib
from checks_types import type_text, rt_chunks

MODEL_CFG = """SPECIFICATION Spec
CONSTANTS
  Mode = "model"
  Depth = %d
  Parens = %s
INVARIANTS SpecRoundTrip
CHECK_DEADLOCK FALSE
"""
CONFORM_CFG = """SPECIFICATION Spec
CONSTANTS
  Mode = "conform"
  Depth = 0
  Parens = TRUE
INVARIANTS InputsConsistent PrintOK ParserOK RoundTrip NoCollision
CHECK_DEADLOCK FALSE
"""

LEXEMES = {"(": "(", ")": ")", "*": "*", "-*": "-*", "+": "+", "&": "&", "{": "{", "}": "}", ":": ":", ",": ",", "/\\": "UP", "\\/": "DOWN", "1": "1"}
UP_PAIRS = [("lin", "rep"), ("lin", "aff"), ("aff", "rep"), ("lin", "mul"), ("mul", "rep"), ("lin", "lin"), ("rep", "rep")]   # up: from <= to


def token_map(w):
    """canonical token names from the real lexer: each lexeme of the type language is lexed alone"""
    m = {}
    for lx, canon in LEXEMES.items():
        r = w.call({"op": "lex", "text": lx})
        toks = r.get("tokens") or []
        if len(toks) != 1:
            raise SystemExit("HARNESS-ERROR: lexer probe of %r gave %r" % (lx, r))
        m[toks[0][0]] = canon
    r = w.call({"op": "lex", "text": "abc"})
    ident = r["tokens"][0][0]
    return m, ident


def written(rng, depth):
    """a random written type (no modes except in shifts)"""
    if depth == 0 or rng.random() < 0.22:
        return rng.choice([{"k": "unit"}, {"k": "unit"}, {"k": "name"}])
    r = rng.random()
    if r < 0.5:
        return {"k": rng.choice(["send", "recv"]), "l": written(rng, depth - 1), "r": written(rng, depth - 1)}
    if r < 0.75:
        n = rng.choice([1, 2, 2, 3])
        labels = rng.sample(["a", "b", "c", "d"], n)
        return {"k": rng.choice(["sel", "bra"]), "br": [{"label": l, "t": written(rng, depth - 1)} for l in labels]}
    return {"k": rng.choice(["up", "down"]), "t": written(rng, depth - 1)}


def assign(t, cur, rng):
    """give every node its mode the way the front end does: the head mode down to the next shift, a shift's continuation at its source mode"""
    k = t["k"]
    if k == "unit":
        return {"k": "unit", "mode": cur}
    if k == "name":
        return {"k": "name", "name": "N" + cur, "mode": cur}
    if k in ("send", "recv"):
        return {"k": k, "l": assign(t["l"], cur, rng), "r": assign(t["r"], cur, rng), "mode": cur}
    if k in ("sel", "bra"):
        return {"k": k, "br": [{"label": b["label"], "t": assign(b["t"], cur, rng)} for b in t["br"]], "mode": cur}
    if k == "up":      # from <= to = cur
        frm = rng.choice([a for a, b in UP_PAIRS if b == cur])
        return {"k": "up", "from": frm, "to": cur, "t": assign(t["t"], frm, rng)}
    frm = rng.choice([b for a, b in UP_PAIRS if a == cur])          # down: from >= to = cur
    return {"k": "down", "from": frm, "to": cur, "t": assign(t["t"], frm, rng)}


def exhaustive_written(depth):
    atoms = [{"k": "unit"}, {"k": "name"}]
    S = list(atoms)
    for _ in range(depth):
        T = list(S)
        T += [{"k": k, "l": a, "r": b} for k in ("send", "recv") for a in S for b in S]
        T += [{"k": "sel", "br": [{"label": "a", "t": a}]} for a in S]
        T += [{"k": "bra", "br": [{"label": "a", "t": a}, {"label": "b", "t": b}]} for a in S for b in S]
        T += [{"k": k, "t": a} for k in ("up", "down") for a in S]
        seen, S = set(), []
        for t in T:
            key = json.dumps(t, sort_keys=True)
            if key not in seen:
                seen.add(key); S.append(t)
    return S


def names_in(t, acc):
    if t["k"] == "name":
        acc.add((t["name"], t["mode"]))
    for c in ([t["l"], t["r"]] if t["k"] in ("send", "recv") else [b["t"] for b in t["br"]] if t["k"] in ("sel", "bra") else [t["t"]] if t["k"] in ("up", "down") else []):
        names_in(c, acc)
    return acc


def c15():
    t0 = time.time()
    tier, seed = vlib.tier(), vlib.seed()
    rng = random.Random(seed * 31 + 5)
    v = vlib.Verdict("C15")
    vlib.build(("vworker",))
    with vlib.Work("c15") as work:
        # (1) model mode: the printer specification has a left inverse on every written type up to the bound; the pinned commit's printer has not
        depth = 2
        rm = vlib.tlc("Print", MODEL_CFG % (depth, "TRUE"), workers=vlib.NCPU, timeout=900, work=work)
        if not rm["ok"]:
            v.harness_errors.append("Print.tla: SpecRoundTrip fails or TLC error: %s" % (rm["violated"] or rm["error_text"] or "")[:600])
        rneg = vlib.tlc("Print", MODEL_CFG % (depth, "FALSE"), workers=vlib.NCPU, timeout=900, work=work)
        if rneg["violated"] != "SpecRoundTrip":
            v.harness_errors.append("vacuity self-test: the parenthesis-free printer is not rejected by SpecRoundTrip")
        # (2) conform mode: real printer, lexer and parser
        ws = exhaustive_written(2)
        if tier == "quick":
            ws = rng.sample(ws, 700)
        ws += [written(rng, rng.choice([3, 3, 4, 4, 5])) for _ in range(900 if tier == "quick" else 12000)]
        moded = []
        for wt in ws:
            head = rng.choice(["lin", "rep", "aff", "mul"])
            if wt["k"] == "up" and head == "lin":
                head = "rep"
            if wt["k"] == "down" and head == "rep":
                head = "lin"
            moded.append(assign(wt, head, rng))

        def run_chunk(chunk):
            w = vlib.Worker(timeout=15)
            tmap, ident = token_map(w)
            out = []
            for k in range(0, len(chunk), 50):
                part = chunk[k:k + 50]
                r = w.call({"op": "print", "types": part})
                if "printed" not in r:
                    out += [{"t": t, "fail": "printer: " + json.dumps(r)[:200]} for t in part]
                    continue
                for t, pr in zip(part, r["printed"]):
                    s = pr["s"]
                    lx = w.call({"op": "lex", "text": s})
                    toks = [(tmap.get(a) or (b if a == ident else "?")) for a, b in (lx.get("tokens") or [])]
                    names = sorted(names_in(t, set()))
                    ann = "" if t["k"] in ("up", "down") else t["mode"]
                    text = "".join("type %s = %s 1\n" % (n, m) for n, m in names) + "type T = %s %s\n" % (ann, s)
                    pa = w.call({"op": "parse", "text": text, "dump": True})
                    rep = {"k": "none"}
                    if pa.get("parse") == "ok":
                        ts = [d for d in pa["dump"]["types"] if d["name"] == "T"]
                        if ts:
                            rep = ts[0]["t"]
                    out.append({"t": t, "ann": ann, "defs": [{"name": n, "ann": m, "t": {"k": "unit", "mode": ""}} for n, m in names], "toks": toks,
                                "reparsed": rep, "printed": s, "parse": pa.get("parse") or pa.get("crash") or ("hang" if pa.get("hang") else "")})
            w.stop()
            return out

        cases = []
        with concurrent.futures.ThreadPoolExecutor(max_workers=vlib.NCPU) as ex:
            for out in ex.map(run_chunk, rt_chunks(moded, vlib.NCPU)):
                cases += out
        for c in cases:
            if "fail" in c:
                v.harness_errors.append(c["fail"])
        cases = sorted([c for c in cases if "fail" not in c], key=lambda c: c["printed"])
        states = gen = 0
        failures = []

        def validate(k_chunk):
            k, chunk = k_chunk
            todo = list(chunk)
            st = ge = 0
            fails = []
            while todo and len(fails) < 4:     # (a defect that shows everywhere is reported a few times per chunk, not once per case)
                p = work.path("print_%d_%d.json" % (k, len(todo)))
                json.dump([{x: c[x] for x in ("t", "ann", "defs", "toks", "reparsed", "printed")} for c in todo], open(p, "w"))
                r = vlib.tlc("Print", CONFORM_CFG, env={"VERIF_CASES": p}, workers=1, timeout=1500, work=work)
                os.remove(p)
                st += r["distinct"]; ge += r["generated"]
                if r["ok"]:
                    break
                if r["violated"]:
                    idx = int(vlib.last_state_vars(r["out"], ["i"]).get("i", "1"))
                    fails.append((r["violated"], todo[idx - 1], todo[idx - 2] if idx >= 2 else None))
                    todo = todo[idx:]
                else:
                    fails.append(("tlc-error", {"error": (r["error_text"] or "timeout")[:800]}, None))
                    break
            return st, ge, fails

        # chunks are contiguous in the sorted order (collisions are adjacent); chunk borders overlap by one case
        n = max(1, (len(cases) + vlib.NCPU - 1) // vlib.NCPU)
        chunks = [cases[max(0, a - 1):a + n] for a in range(0, len(cases), n)]
        with concurrent.futures.ThreadPoolExecutor(max_workers=vlib.NCPU) as ex:
            for st, ge, fails in ex.map(validate, list(enumerate(chunks))):
                states += st; gen += ge; failures += fails
        seen_v = set()
        for inv, c, prev in failures:
            if inv == "tlc-error":
                v.harness_errors.append("Print.tla (conform): " + c["error"]); continue
            if inv == "InputsConsistent":
                v.harness_errors.append("generated case is not in inferred form: " + json.dumps(c["t"])[:300]); continue
            key = (inv, c["printed"])
            if key in seen_v:
                continue
            seen_v.add(key)
            if inv == "NoCollision":
                what = "two different types print identically as '%s': %s and %s" % (c["printed"], type_text(prev["t"]), type_text(c["t"]))
            elif inv == "PrintOK":
                what = "the type %s is printed as '%s', which the grammar does not read back as that type" % (type_text(c["t"]), c["printed"])
            elif inv == "ParserOK":
                what = "the parser reads '%s' (head mode %s) differently from the grammar / mode inference: got %s (%s)" % (c["printed"], c["ann"] or "-", json.dumps(c["reparsed"])[:200], c["parse"][:100])
            else:
                what = "print then parse is not the identity for %s: printed '%s', parsed back as %s" % (type_text(c["t"]), c["printed"], json.dumps(c["reparsed"])[:200])
            v.violation(what, {"case": c, "previous": prev}, {"inv": inv})
        # (3) process terms
        import checks_print_forms as F
        fcov = F.forms_roundtrip(v, work, tier, seed)
        cov = {"states": max(1, states + rm["distinct"]), "transitions": max(1, gen + rm["generated"]),
               "traces_validated_against_impl": len(cases) - len({id(c) for _, c, _ in failures if _ != "tlc-error"}),
               "samples": [{"type": type_text(c["t"]), "printed": c["printed"]} for c in cases[:2] + cases[len(cases) // 2:len(cases) // 2 + 2]],
               "model_universe_depth": depth, "model_universe_types": rm["distinct"], "model_vacuity_selftest": "parenthesis-free printer rejected: %s" % (rneg["violated"] == "SpecRoundTrip"),
               "types_printed_lexed_reparsed": len(cases), "distinct_printed_texts": len({c["printed"] for c in cases}), "invariants": ["PrintOK", "ParserOK", "RoundTrip", "NoCollision"]}
        cov.update(fcov)
        vlib.write_evidence("C15", "model_checking", cov, time.time() - t0, len(v.violations),
                            ["types: written types up to depth 2 exhaustively (sampled in the quick tier) plus seeded random types up to depth 5, moded as the front end modes them (head mode to the next shift; "
                             "legal shift pairs); names are defined as unit types of the mode they are used at; the real lexer supplies the tokens of the printed text",
                             "process terms: bodies of the corpus / generated programs printed by Form.String() and re-parsed in place (types inside terms are printed by the same type printer)"])
    return v.finish()


CHECKS = {"C15": c15}
