#!/bin/bash
# atrev.sh <git rev of /repo> <check ids...> : run checks (quick) against another revision of /repo in isolation
# (scratch worktree + scratch copy of /verif linked to it); used to confirm that a check detects a defect before its fix.
rev=$1; shift
tag=$(echo "$rev" | tr -c 'A-Za-z0-9' '_')
wt=/tmp/atrev_wt_$tag; vs=/tmp/atrev_vs_$tag
git -C /repo worktree remove --force $wt 2>/dev/null; rm -rf $wt $vs
git -C /repo worktree add --detach $wt $rev -q || exit 2
mkdir -p $vs; rsync -a --exclude .git --exclude .work --exclude .build --exclude out --exclude __pycache__ /verif/ $vs/
sed -i "s#replace grits => /repo#replace grits => $wt#" $vs/harness/go.mod
for c in "$@"; do
  (cd $vs && VERIF_REPO=$wt python3 tools/vcheck.py $c --tier quick 2>&1 | grep -v "^WARNING conda" | cut -c1-300 | head -12; echo "$c exit=${PIPESTATUS[0]}")
done
git -C /repo worktree remove --force $wt; rm -rf $wt $vs
