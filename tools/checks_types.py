"""C17 (modes), C08 (type equality), C10 (well-formedness), C16 (mode inference)."""
import collections, json, time, os, itertools, random
import vlib

MODES = ["rep", "mul", "aff", "lin"]

MODES_CFG = """SPECIFICATION Spec
INVARIANTS OrderAsSpecified Reflexive Transitive Antisymmetric TopBottom Incomparable Converse SigmaAsSpecified Monotone EqualsIsIdentity Spellings Names
CHECK_DEADLOCK FALSE
"""


def c17():
    t0 = time.time()
    vlib.build(("vworker",))
    v = vlib.Verdict("C17")
    rng = random.Random(vlib.seed())
    # the relation must be a fixed relation: the table is recorded several times, each in a FRESH process, with the order queries asked first in
    # a different order (natural, reversed, weak-to-strong first, seeded shuffles); the laws are checked on every table
    allq = ["%s:%s:%s" % (k, a, b) for k in ("down", "up") for a in MODES for b in MODES]
    orders = {"natural": [], "reversed": list(reversed(allq)), "weak-first": sorted(allq, key=lambda q: (MODES.index(q.split(":")[1]) if q.startswith("down") else -MODES.index(q.split(":")[1])), reverse=True)}
    for k in range(3 if vlib.tier() == "quick" else 24):
        o = list(allq)
        rng.shuffle(o)
        orders["shuffle%d" % k] = o
    nested = lambda d, sep: {a: {b: d[a + sep + b] for b in MODES} for a in MODES}
    doc = ["r", "rep", "replicable", "m", "mul", "multicast", "a", "aff", "affine", "l", "lin", "linear"]
    states = gen = 0
    tables = {}
    with vlib.Work("c17") as work:
        for oname, order in orders.items():
            w = vlib.Worker()
            r = w.call({"op": "modes", "order": order})
            w.stop()
            if "table" not in r:
                v.violation("the Modality methods could not be tabulated (%s): %s" % (oname, json.dumps(r)[:300]), {"reply": r}, {})
                continue
            t = r["table"]
            table = {"down": nested(t["down"], ">"), "up": nested(t["up"], ">"), "eq": nested(t["eq"], "="), "weak": t["weak"], "contr": t["contr"],
                     "full": t["full"], "short": t["short"], "spell": {s: t["spell"][s] for s in doc if s in t["spell"]},
                     "undoc": {("u%d" % i): x for i, (s, x) in enumerate(sorted(t["spell"].items())) if s.lower() not in doc}}
            tables[oname] = table
            if t.get("unstable"):
                v.violation("the order relation answers the same question differently within one process (query order %s): %s" % (oname, t["unstable"][:6]),
                            {"table": table, "order": order, "unstable": t["unstable"]}, {"law": "Stable"})
            path = work.path("modes_%s.json" % oname)
            json.dump(table, open(path, "w"))
            res = vlib.tlc("Modes", MODES_CFG, env={"VERIF_MODES": path}, workers=1, timeout=120, work=work)
            states += res["distinct"]; gen += res["generated"]
            if res["violated"]:
                st = vlib.last_state_vars(res["out"], ["m", "k", "j"])
                v.violation("law %s fails on the mode table recorded with query order '%s' at %s" % (res["violated"], oname, st),
                            {"table": table, "law": res["violated"], "tuple": st, "order": order}, {"law": res["violated"]})
            elif not res["ok"]:
                v.harness_errors.append("TLC: " + str(res["error_text"])[:500])
    cov = {"states": max(1, states), "transitions": max(1, gen), "traces_validated_against_impl": len(tables),
           "samples": [{"recorded_table": tables.get("natural")}], "exhaustive": True, "tuples": 64, "query_orders": list(orders),
           "laws": MODES_CFG.split("INVARIANTS ")[1].split("\n")[0].split()}
    vlib.write_evidence("C17", "model_checking", cov, time.time() - t0, len(v.violations),
                        ["the tables are recorded from the real methods of types/modality.go in this run, each in a fresh process and with the order queries first asked in a "
                         "different order; the laws are checked by TLC on each table for all 64 triples"])
    return v.finish()


CHECKS = {"C17": c17}


# ----------------------------------------------------------------------------- shapes / environments
ENUM_CFG = "INIT Init\nNEXT Next\n"


def shapes(work):
    out = work.path("shapes.json")
    r = vlib.tlc("TypeEnum", ENUM_CFG, env={"VERIF_OUT": out}, workers=1, timeout=120, work=work)
    if not os.path.exists(out):
        print("HARNESS-ERROR TypeEnum failed", (r["error_text"] or r["out"][-500:])[:500])
        raise SystemExit(2)
    return json.load(open(out))


def subterms(t, acc=None):
    acc = [] if acc is None else acc
    if t not in acc:
        acc.append(t)
    if t["k"] in ("send", "recv"):
        subterms(t["l"], acc); subterms(t["r"], acc)
    elif t["k"] in ("sel", "bra"):
        for b in t["br"]:
            subterms(b["t"], acc)
    elif t["k"] in ("up", "down"):
        subterms(t["t"], acc)
    return acc


def mode_of(t):
    return t["to"] if t["k"] in ("up", "down") else t["mode"]


def mentions(t, acc=None):
    acc = set() if acc is None else acc
    for s in subterms(t):
        if s["k"] == "name":
            acc.add(s["name"])
    return acc


def plausible(defs):
    """cheap sampling filter only (raises the share of well-formed environments); the verdict is WellFormed!WF's"""
    names = {d["name"]: d["t"] for d in defs}
    for d in defs:
        for s in subterms(d["t"]):
            if s["k"] == "name":
                if s["name"] not in names or mode_of(names[s["name"]]) != s["mode"]:
                    return False
    # contractive: no alias cycle
    for d in defs:
        seen, t = set(), d["t"]
        while t["k"] == "name":
            if t["name"] in seen:
                return False
            seen.add(t["name"])
            t = names[t["name"]]
    return True


CURATED_EQ = [
    # alias chains (F1), two equivalent recursive names (F2), unrolled variants, branch order
    [("A", {"k": "name", "name": "B", "mode": "rep"}), ("B", {"k": "unit", "mode": "rep"})],
    [("A", {"k": "name", "name": "B", "mode": "rep"}), ("B", {"k": "name", "name": "C", "mode": "rep"}), ("C", {"k": "send", "l": {"k": "unit", "mode": "rep"}, "r": {"k": "unit", "mode": "rep"}, "mode": "rep"})],
    [("A", {"k": "sel", "br": [{"label": "l", "t": {"k": "name", "name": "A", "mode": "rep"}}], "mode": "rep"}),
     ("B", {"k": "sel", "br": [{"label": "l", "t": {"k": "name", "name": "B", "mode": "rep"}}], "mode": "rep"})],
    [("A", {"k": "sel", "br": [{"label": "l", "t": {"k": "name", "name": "A", "mode": "rep"}}], "mode": "rep"}),
     ("B", {"k": "sel", "br": [{"label": "l", "t": {"k": "sel", "br": [{"label": "l", "t": {"k": "name", "name": "B", "mode": "rep"}}], "mode": "rep"}}], "mode": "rep"})],
    [("A", {"k": "send", "l": {"k": "unit", "mode": "rep"}, "r": {"k": "name", "name": "A", "mode": "rep"}, "mode": "rep"}),
     ("B", {"k": "send", "l": {"k": "unit", "mode": "rep"}, "r": {"k": "name", "name": "A", "mode": "rep"}, "mode": "rep"}),
     ("C", {"k": "recv", "l": {"k": "unit", "mode": "rep"}, "r": {"k": "name", "name": "C", "mode": "rep"}, "mode": "rep"})],
    [("A", {"k": "sel", "br": [{"label": "l", "t": {"k": "unit", "mode": "rep"}}, {"label": "r", "t": {"k": "name", "name": "A", "mode": "rep"}}], "mode": "rep"}),
     ("B", {"k": "sel", "br": [{"label": "r", "t": {"k": "name", "name": "B", "mode": "rep"}}, {"label": "l", "t": {"k": "unit", "mode": "rep"}}], "mode": "rep"}),
     ("C", {"k": "sel", "br": [{"label": "l", "t": {"k": "unit", "mode": "rep"}}, {"label": "r", "t": {"k": "name", "name": "B", "mode": "rep"}}], "mode": "rep"})],
    [("A", {"k": "up", "from": "lin", "to": "rep", "t": {"k": "name", "name": "B", "mode": "lin"}}),
     ("B", {"k": "down", "from": "rep", "to": "lin", "t": {"k": "name", "name": "A", "mode": "rep"}}),
     ("C", {"k": "up", "from": "lin", "to": "rep", "t": {"k": "down", "from": "rep", "to": "lin", "t": {"k": "name", "name": "C", "mode": "rep"}}})],
]


def make_envs(sh, n, rng, pool="full", names=("A", "B", "C"), exhaustive=False):
    S = sh[pool] if pool != "full+deep" else sh["full"] + sh["deep"]
    envs = []
    if exhaustive:
        S2 = [s for s in S if mentions(s) <= set(names)]
        for combo in itertools.product(S2, repeat=len(names)):
            defs = [{"name": nm, "t": t} for nm, t in zip(names, combo)]
            if plausible(defs):
                envs.append(defs)
        return envs
    tries = 0
    while len(envs) < n and tries < n * 400:
        tries += 1
        defs = [{"name": nm, "t": rng.choice(S)} for nm in names]
        if plausible(defs):
            envs.append(defs)
    return envs


def collision_cases(rng, n):
    """environments + queries aimed at the memo key of EqualType (F10): a name L is compared, inside ONE call, first with its own
    definition and then with a different type that is written with the same tokens when parentheses are dropped (re-association of
    * / -* chains, a shift as left operand); the call compares +{p : L, q : L} with +{p : T1, q : T2} in both orders."""
    U = {"k": "unit", "mode": "rep"}

    def trees(k):
        if k == 0:
            return [U, {"k": "name", "name": "B", "mode": "rep"}]
        out = []
        for i in range(k):
            for l in trees(i):
                for r in trees(k - 1 - i):
                    for op in ("send", "recv"):
                        out.append({"k": op, "l": l, "r": r, "mode": "rep"})
        return out

    def flat(t):
        if t["k"] == "unit":
            return "1"
        if t["k"] == "name":
            return t["name"]
        return flat(t["l"]) + (" * " if t["k"] == "send" else " -* ") + flat(t["r"])

    groups = collections.defaultdict(list)
    for k in (2, 3):
        for t in trees(k):
            groups[flat(t)].append(t)
    pairs = [(a, b) for g in groups.values() if len(g) > 1 for a in g for b in g if a != b]
    rng.shuffle(pairs)
    out = []
    for t1, t2 in pairs[:n]:
        defs = [{"name": "A", "t": t1}, {"name": "B", "t": U}]
        L = {"k": "name", "name": "A", "mode": "rep"}

        def sel(x, y):
            return {"k": "sel", "br": [{"label": "p", "t": x}, {"label": "q", "t": y}], "mode": "rep"}
        qs = [(sel(L, L), sel(t1, t2)), (sel(t1, t2), sel(L, L)), (sel(L, L), sel(t2, t1)), (L, t2), (t2, L), (sel(L, L), sel(t1, t1))]
        out.append((defs, qs))
    return out


def shift_cases():
    """pairs of shift types that differ in exactly one of: target mode, source mode, direction, continuation - compared directly (the shift is the
    ROOT of the comparison), through a name, and nested under a constructor; only identical ones are equal"""
    U = lambda m: {"k": "unit", "mode": m}
    shifts = []
    for k in ("up", "down"):
        for f in MODES:
            for t in MODES:
                ok = (MODES.index(f) >= MODES.index(t) or t == "rep") if k == "up" else (MODES.index(f) <= MODES.index(t) or f == "rep")
                shifts.append({"k": k, "from": f, "to": t, "t": U(f)})
    out = []
    for a in shifts:
        for b in shifts:
            if sum([a["k"] != b["k"], a["from"] != b["from"], a["to"] != b["to"]]) > 1:
                continue
            defs = [{"name": "A", "t": a}, {"name": "B", "t": b}]
            nA = {"k": "name", "name": "A", "mode": a["to"]}
            nB = {"k": "name", "name": "B", "mode": b["to"]}
            qs = [(a, b), (b, a), (nA, nB), (nA, b), (a, nB)]
            if a["to"] == b["to"]:
                wrap = lambda x: {"k": "sel", "br": [{"label": "l", "t": x}], "mode": a["to"]}
                qs.append((wrap(a), wrap(b)))
            out.append((defs, qs))
    return out


def queries_for(defs, rng, limit=7):
    terms = []
    for d in defs:
        terms.append({"k": "name", "name": d["name"], "mode": mode_of(d["t"])})
    for d in defs:
        for s in subterms(d["t"]):
            if s not in terms:
                terms.append(s)
    if len(terms) > limit:
        head = terms[:len(defs)]
        rest = terms[len(defs):]
        rng.shuffle(rest)
        terms = head + rest[:limit - len(defs)]
    return [(a, b) for a in terms for b in terms]


EQ_CFG = """SPECIFICATION Spec
INVARIANTS CaseOK IsEquivalence UnrollInvariant
CHECK_DEADLOCK FALSE
"""


def c08():
    t0 = time.time()
    tr = vlib.tier()
    rng = random.Random(vlib.seed())
    vlib.build(("vworker",))
    v = vlib.Verdict("C08")
    with vlib.Work("c08") as work:
        sh = shapes(work)
        envs = [[{"name": n, "t": t} for n, t in e] for e in CURATED_EQ]
        if tr == "quick":
            envs += make_envs(sh, 200, rng, "full") + make_envs(sh, 120, rng, "full+deep")
            envs += make_envs(sh, 0, rng, "small", names=("A", "B"), exhaustive=True)[:400]
        else:
            envs += make_envs(sh, 3000, rng, "full") + make_envs(sh, 2500, rng, "full+deep")
            envs += make_envs(sh, 0, rng, "small", names=("A", "B"), exhaustive=True)
            envs += make_envs(sh, 3000, rng, "small")
        explicit = {}
        for defs, qs in collision_cases(rng, 60 if tr == "quick" else 100000):
            explicit[id(defs)] = qs
            envs.append(defs)
        for defs, qs in shift_cases():
            explicit[id(defs)] = qs
            envs.append(defs)
        # real calls
        cases = []

        def run_chunk(chunk):
            w = vlib.Worker(timeout=10)
            out = []
            for defs in chunk:
                qs = explicit.get(id(defs)) or queries_for(defs, random.Random(len(out)))
                r = w.call({"op": "eq", "defs": defs, "queries": [[a, b] for a, b in qs]})
                if "results" in r:
                    rets = ["true" if x else "false" for x in r["results"]]
                    out.append({"defs": defs, "queries": [{"a": a, "b": b, "ret": x} for (a, b), x in zip(qs, rets)], "wfreal": r.get("wf")})
                else:
                    # find one offending query (each crash may cost seconds: stop at the first)
                    kind = "hang" if r.get("hang") else "crash"
                    qq = []
                    found = False
                    for a, b in qs:
                        if found:
                            break
                        r1 = w.call({"op": "eq", "defs": defs, "queries": [[a, b]]})
                        if "results" in r1:
                            qq.append({"a": a, "b": b, "ret": "true" if r1["results"][0] else "false"})
                        else:
                            found = True
                            qq.append({"a": a, "b": b, "ret": "hang" if r1.get("hang") else "crash", "detail": (r1.get("crash") or "")[:200]})
                    if not found:
                        qq.append({"a": qs[0][0], "b": qs[0][1], "ret": kind, "detail": "only the whole batch fails"})
                    out.append({"defs": defs, "queries": qq, "wfreal": None})
            w.stop()
            return out

        import concurrent.futures
        chunks = rt_chunks(envs, vlib.NCPU)
        with concurrent.futures.ThreadPoolExecutor(max_workers=vlib.NCPU) as ex:
            for out in ex.map(run_chunk, chunks):
                cases += out
        # history independence: the same name-pair queries under two different sets of definitions of the same names, asked in alternation many
        # times inside ONE process with fresh environments and a collection in between; every distinct result vector is logged as a case
        hist_pairs = 0
        pool = [e for e in envs if len(e) == 3 and id(e) not in explicit and all(mode_of(d["t"]) == "rep" for d in e)][:400]
        w = vlib.Worker(timeout=60)
        for _ in range(30 if tr == "quick" else 300):
            if len(pool) < 2:
                break
            e1, e2 = rng.sample(pool, 2)
            names = [{"k": "name", "name": d["name"], "mode": mode_of(d["t"])} for d in e1]
            names2 = [{"k": "name", "name": d["name"], "mode": mode_of(d["t"])} for d in e2]
            if names != names2:
                continue          # (the queries must be the same terms under both sets)
            qs = [(a, b) for a in names for b in names]
            r = w.call({"op": "eqseq", "envs": [e1, e2], "queries": [[a, b] for a, b in qs], "rounds": 20})
            if "vectors" not in r:
                cases.append({"defs": e1, "queries": [{"a": qs[0][0], "b": qs[0][1], "ret": "hang" if r.get("hang") else "crash", "detail": (r.get("crash") or "")[:200]}], "wfreal": None})
                continue
            hist_pairs += 1
            for defs, vectors in zip((e1, e2), r["vectors"]):
                for vec in vectors:
                    cases.append({"defs": defs, "queries": [{"a": a, "b": b, "ret": "true" if x else "false"} for (a, b), x in zip(qs, vec)], "wfreal": None, "history": True})
        w.stop()
        ncalls = sum(len(c["queries"]) for c in cases)
        # TLC validation of the call log, in parallel chunks
        states = gen = 0
        failures = []

        def validate(k_chunk):
            k, chunk = k_chunk
            todo = list(chunk)
            st = ge = 0
            fails = []
            while todo:
                p = work.path("cases_%d_%d.json" % (k, len(todo)))
                json.dump([{"defs": c["defs"], "queries": [{"a": q["a"], "b": q["b"], "ret": q["ret"]} for q in c["queries"]]} for c in todo], open(p, "w"))
                r = vlib.tlc("TypeEq", EQ_CFG, env={"VERIF_CASES": p}, workers=1, timeout=1200, work=work)
                os.remove(p)
                st += r["distinct"]; ge += r["generated"]
                if r["ok"]:
                    break
                if r["violated"]:
                    i = int(vlib.last_state_vars(r["out"], ["i"]).get("i", "1"))
                    fails.append((r["violated"], todo[i - 1]))
                    todo = todo[i:]
                else:
                    fails.append(("tlc-error", {"error": (r["error_text"] or "timeout")[:800]}))
                    break
            return st, ge, fails

        vchunks = list(enumerate(rt_chunks(cases, vlib.NCPU)))
        with concurrent.futures.ThreadPoolExecutor(max_workers=vlib.NCPU) as ex:
            for st, ge, fails in ex.map(validate, vchunks):
                states += st; gen += ge; failures += fails
        for inv, case in failures:
            if inv == "tlc-error":
                v.harness_errors.append("TypeEq: " + case["error"])
                continue
            if inv != "CaseOK":
                v.harness_errors.append("specification theorem %s fails on %s" % (inv, json.dumps(case["defs"])[:300]))
                continue
            bad = [q for q in case["queries"] if q["ret"] in ("crash", "hang")]
            kind = "does not return (%s)" % bad[0]["ret"] if bad else "disagrees with bisimilarity"
            sig = {"kind": "noreturn" if bad else "wrong", "alias_env": any(d["t"]["k"] == "name" for d in case["defs"])}
            v.violation("EqualType %s for environment %s" % (kind, type_env_text(case["defs"])), {"case": case}, sig)
        cov = {"states": max(1, states), "transitions": max(1, gen), "traces_validated_against_impl": len(cases) - len([f for f in failures if f[0] == "CaseOK"]),
               "samples": [{"env": type_env_text(c["defs"]), "calls": len(c["queries"])} for c in cases[:4]],
               "environments": len(cases), "equaltype_calls_logged": ncalls, "history_pairs_alternated_in_one_process": hist_pairs, "shape_sets": {k: len(x) for k, x in sh.items()},
               "theorems_checked_per_environment": ["IsEquivalence", "UnrollInvariant"]}
        vlib.write_evidence("C08", "model_checking", cov, time.time() - t0, len(v.violations),
                            ["environments over at most 3 names built from the shape grammar of TypeEnum.tla (curated + exhaustive 2-name + seeded sample)",
                             "well-formedness of the inputs is WellFormed!WF"])
    return v.finish()


def rt_chunks(xs, n):
    k = max(1, (len(xs) + n - 1) // n)
    return [xs[i:i + k] for i in range(0, len(xs), k)]


def type_text(t):
    k = t["k"]
    if k == "unit":
        return "1"
    if k == "name":
        return t["name"]
    if k == "send":
        return "(%s * %s)" % (type_text(t["l"]), type_text(t["r"]))
    if k == "recv":
        return "(%s -* %s)" % (type_text(t["l"]), type_text(t["r"]))
    if k in ("sel", "bra"):
        return ("+" if k == "sel" else "&") + "{" + ", ".join("%s : %s" % (b["label"], type_text(b["t"])) for b in t["br"]) + "}"
    if k == "up":
        return "(%s /\\ %s %s)" % (t["from"], t["to"], type_text(t["t"]))
    if k == "down":
        return "(%s \\/ %s %s)" % (t["from"], t["to"], type_text(t["t"]))
    return "?"


def type_env_text(defs):
    return "; ".join("type %s = %s %s" % (d["name"], mode_of(d["t"]), type_text(d["t"])) for d in defs)


CHECKS["C08"] = c08


# ----------------------------------------------------------------------------- C10 / C16
def strip_modes(t):
    k = t["k"]
    if k == "unit":
        return {"k": "unit", "mode": ""}
    if k == "name":
        return {"k": "name", "name": t["name"], "mode": ""}
    if k in ("send", "recv"):
        return {"k": k, "l": strip_modes(t["l"]), "r": strip_modes(t["r"]), "mode": ""}
    if k in ("sel", "bra"):
        return {"k": k, "br": [{"label": b["label"], "t": strip_modes(b["t"])} for b in t["br"]], "mode": ""}
    return {"k": k, "from": t["from"], "to": t["to"], "t": strip_modes(t["t"])}


def written_text(d):
    body = type_text(d["t"])
    if d["ann"]:
        return "type %s = %s %s" % (d["name"], d["ann"], body)
    return "type %s = %s" % (d["name"], body)


CURATED_W = [
    [("A", "", {"k": "sel", "br": [{"label": "a", "t": {"k": "unit", "mode": ""}}, {"label": "a", "t": {"k": "recv", "l": {"k": "unit", "mode": ""}, "r": {"k": "unit", "mode": ""}, "mode": ""}}], "mode": ""})],   # F3
    [("A", "aff", {"k": "up", "from": "mul", "to": "mul", "t": {"k": "unit", "mode": ""}})],   # F15
    [("A", "", {"k": "name", "name": "B", "mode": ""}), ("A", "", {"k": "name", "name": "A", "mode": ""})],
    [("A", "", {"k": "name", "name": "B", "mode": ""}), ("B", "", {"k": "name", "name": "C", "mode": ""}), ("C", "", {"k": "name", "name": "A", "mode": ""})],
    [("A", "lin", {"k": "send", "l": {"k": "name", "name": "B", "mode": ""}, "r": {"k": "unit", "mode": ""}, "mode": ""}), ("B", "", {"k": "unit", "mode": ""})],
    [("A", "lin", {"k": "send", "l": {"k": "name", "name": "B", "mode": ""}, "r": {"k": "unit", "mode": ""}, "mode": ""}), ("B", "lin", {"k": "unit", "mode": ""})],
    [("A", "", {"k": "send", "l": {"k": "name", "name": "B", "mode": ""}, "r": {"k": "unit", "mode": ""}, "mode": ""}), ("B", "lin", {"k": "unit", "mode": ""})],
    [("A", "", {"k": "recv", "l": {"k": "down", "from": "rep", "to": "lin", "t": {"k": "unit", "mode": ""}}, "r": {"k": "name", "name": "A", "mode": ""}, "mode": ""})],
    [("A", "", {"k": "up", "from": "lin", "to": "rep", "t": {"k": "name", "name": "B", "mode": ""}}), ("B", "", {"k": "down", "from": "rep", "to": "lin", "t": {"k": "name", "name": "A", "mode": ""}})],
    [("A", "bogus", {"k": "unit", "mode": ""})],
    [("A", "", {"k": "sel", "br": [{"label": "l", "t": {"k": "name", "name": "A", "mode": ""}}], "mode": ""}), ("B", "aff", {"k": "bra", "br": [{"label": "l", "t": {"k": "name", "name": "B", "mode": ""}}], "mode": ""})],
]


def make_written(sh, n, rng):
    pool = [strip_modes(s) for s in sh["full"]] + [strip_modes(s) for s in rng.sample(sh["deep"], min(len(sh["deep"]), 150))] \
        + [strip_modes(s) for s in rng.sample(sh["shift2"], min(len(sh["shift2"]), 150))]
    # de-duplicate after stripping
    seen, P = set(), []
    for s in pool:
        key = json.dumps(s, sort_keys=True)
        if key not in seen:
            seen.add(key); P.append(s)
    ill = [strip_modes(s) if s["k"] in ("up", "down") else s for s in sh["ill"]]
    anns = ["", "", "", "rep", "lin", "aff", "mul"]
    out = []
    for _ in range(n):
        k = rng.choice([1, 2, 2, 3, 3, 3])
        names = [rng.choice(["A", "B", "C"]) for _ in range(k)] if rng.random() < 0.1 else rng.sample(["A", "B", "C"], k)
        defs = []
        for nm in names:
            r = rng.random()
            if r < 0.08:
                t = strip_modes_keep_bogus(rng.choice(ill))
            else:
                t = rng.choice(P)
            ann = rng.choice(anns) if rng.random() < 0.97 else "bogus"
            defs.append({"name": nm, "ann": ann, "t": t})
        out.append(defs)
    return out


def strip_modes_keep_bogus(t):
    # ill shapes carry deliberately mixed modes; written types cannot express inner modes, so only shifts / names survive
    return strip_modes(t)


def smart_written(sh, n, rng):
    """environments biased towards acceptance: all names defined, annotation from the fixing component or free"""
    pool = []
    seen = set()
    for s in sh["full"] + rng.sample(sh["deep"], min(len(sh["deep"]), 200)) + rng.sample(sh["shift2"], min(len(sh["shift2"]), 100)):
        w = strip_modes(s)
        key = json.dumps(w, sort_keys=True)
        if key not in seen:
            seen.add(key); pool.append(w)
    out = []
    tries = 0
    while len(out) < n and tries < 200 * n:
        tries += 1
        names = ["A", "B", "C"][:rng.choice([1, 2, 3, 3])]
        defs = [{"name": nm, "ann": rng.choice(["", "", "rep", "lin", "aff", "mul"]), "t": rng.choice(pool)} for nm in names]
        if all(mentions(d["t"]) <= set(names) for d in defs):
            out.append(defs)
    return out


def cyclic_written(n, rng):
    """unannotated, mutually recursive definition sets in which the component that fixes the mode sits AFTER a back edge of the traversal,
    under every order of the definitions: mode inference walks definitions through names with a cycle guard, and a partial result computed
    inside a cycle must not leak to another definition (order independence / completeness of C16, consistency of C10)."""
    N = ["A", "B", "C"]
    U = {"k": "unit", "mode": ""}
    nm = lambda x: {"k": "name", "name": x, "mode": ""}
    shifts = [{"k": "down", "from": "rep", "to": "lin", "t": U}, {"k": "up", "from": "lin", "to": "rep", "t": U},
              {"k": "down", "from": "rep", "to": "aff", "t": U}, {"k": "down", "from": "mul", "to": "lin", "t": U}]
    pool = []
    for x in N:
        pool += [nm(x)] * 3
        for k in ("sel", "bra"):
            pool.append({"k": k, "br": [{"label": "l", "t": nm(x)}], "mode": ""})
            for sh in shifts:
                pool.append({"k": k, "br": [{"label": "l", "t": nm(x)}, {"label": "r", "t": sh}], "mode": ""})
                pool.append({"k": k, "br": [{"label": "l", "t": sh}, {"label": "r", "t": nm(x)}], "mode": ""})
            for y in N:
                pool.append({"k": k, "br": [{"label": "l", "t": nm(x)}, {"label": "r", "t": nm(y)}], "mode": ""})
        for k in ("send", "recv"):
            pool.append({"k": k, "l": nm(x), "r": U, "mode": ""})
            for y in N:
                pool.append({"k": k, "l": nm(x), "r": nm(y), "mode": ""})
            for sh in shifts[:2]:
                pool.append({"k": k, "l": nm(x), "r": sh, "mode": ""})
    pool += [U] * 4 + shifts
    out = []
    while len(out) < n:
        defs = [{"name": x, "ann": rng.choice(["", "", "", "", "lin", "rep"]), "t": rng.choice(pool)} for x in N]
        for perm in itertools.permutations(defs):
            out.append(list(perm))
    return out


DEFS_CFG = """SPECIFICATION Spec
INVARIANTS %s
CHECK_DEADLOCK FALSE
"""

_types_cache = {}


def types_campaign():
    key = (vlib.tier(), vlib.seed())
    if key in _types_cache:
        return _types_cache[key]
    tr = vlib.tier()
    rng = random.Random(vlib.seed() * 7919 + 1)
    vlib.build(("vworker",))
    work = vlib.Work("tdefs")
    sh = shapes(work)
    W = [[{"name": n, "ann": a, "t": t} for n, a, t in e] for e in CURATED_W]
    nrand, nsmart = (250, 450) if tr == "quick" else (3000, 6000)
    W += make_written(sh, nrand, rng) + smart_written(sh, nsmart, rng)
    # a shift directly under a shift: every combination of the 4 x 4 mode pairs on both levels (sampled in the quick tier)
    s2 = sh["shift2"] if tr != "quick" else rng.sample(sh["shift2"], 220)
    W += [[{"name": "A", "ann": "", "t": strip_modes(x)}] for x in s2]
    W += [[{"name": "A", "ann": "", "t": strip_modes(x)}, {"name": "B", "ann": "", "t": {"k": "send", "l": {"k": "name", "name": "A", "mode": ""}, "r": {"k": "unit", "mode": ""}, "mode": ""}}]
          for x in rng.sample(sh["shift2"], 60)]
    W += cyclic_written(1500 if tr == "quick" else 40000, rng)
    cases = []

    def run_chunk(chunk):
        w = vlib.Worker(timeout=10)
        out = []
        for defs in chunk:
            text = "\n".join(written_text(d) for d in defs) + "\n"
            r = w.call({"op": "check", "text": text, "dump": True, "grace_ms": 0})
            c = {"w": defs, "text": text, "modes": [], "unfold": []}
            if r.get("hang"):
                c["verdict"] = "hang"
            elif "crash" in r or "panic" in r:
                c["verdict"] = "crash"; c["detail"] = (r.get("crash") or r.get("panic") or "")[:300]
            elif r.get("parse") != "ok":
                c["verdict"] = "parse-error"; c["detail"] = r.get("parse", "")[:200]
            elif r.get("tc") == "ok":
                c["verdict"] = "accept"
                c["modes"] = r["dump"]["types"]
                c["unfold"] = r.get("unfold") or []
            else:
                c["verdict"] = "reject"; c["detail"] = r.get("tc", "")[:200]
            out.append(c)
        w.stop()
        return out

    import concurrent.futures
    with concurrent.futures.ThreadPoolExecutor(max_workers=vlib.NCPU) as ex:
        for out in ex.map(run_chunk, rt_chunks(W, vlib.NCPU)):
            cases += out
    res = {"work": work, "cases": cases, "shapes": {k: len(x) for k, x in sh.items()}}
    _types_cache[key] = res
    return res


def validate_cases(work, spec, cfg, cases, proj):
    """run the call-log validation spec over the cases in parallel chunks; returns (states, generated, failures[(inv, case)])"""
    import concurrent.futures
    states = gen = 0
    failures = []

    def validate(k_chunk):
        k, chunk = k_chunk
        todo = list(chunk)
        st = ge = 0
        fails = []
        while todo:
            p = work.path("cases_%s_%d_%d.json" % (spec, k, len(todo)))
            json.dump([proj(c) for c in todo], open(p, "w"))
            r = vlib.tlc(spec, cfg, env={"VERIF_CASES": p}, workers=1, timeout=1500, work=work)
            os.remove(p)
            st += r["distinct"]; ge += r["generated"]
            if r["ok"]:
                break
            if r["violated"]:
                i = int(vlib.last_state_vars(r["out"], ["i"]).get("i", "1"))
                fails.append((r["violated"], todo[i - 1]))
                todo = todo[i:]
            else:
                fails.append(("tlc-error", {"error": (r["error_text"] or "timeout")[:800]}))
                break
        return st, ge, fails

    with concurrent.futures.ThreadPoolExecutor(max_workers=vlib.NCPU) as ex:
        for st, ge, fails in ex.map(validate, list(enumerate(rt_chunks(cases, vlib.NCPU)))):
            states += st; gen += ge; failures += fails
    return states, gen, failures


def c10():
    t0 = time.time()
    v = vlib.Verdict("C10")
    camp = types_campaign()
    cases = [c for c in camp["cases"] if c["verdict"] != "parse-error"]
    proj = lambda c: {"w": c["w"], "verdict": c["verdict"], "modes": c["modes"], "unfold": c["unfold"]}
    st, ge, fails = validate_cases(camp["work"], "TypeDefs", DEFS_CFG % "VerdictOK UnfoldOK", cases, proj)
    for inv, c in fails:
        if inv == "tlc-error":
            v.harness_errors.append("TypeDefs: " + c["error"]); continue
        dup_label = any(len({b["label"] for b in s["br"]}) < len(s["br"]) for d in c["w"] for s in subterms(d["t"]) if s["k"] in ("sel", "bra"))
        ann_shift = any(d["ann"] and d["t"]["k"] in ("up", "down") and d["ann"] != d["t"]["to"] for d in c["w"])
        sig = {"inv": inv, "verdict": c["verdict"], "duplicate_label": dup_label, "annotated_shift": ann_shift}
        v.violation("%s: front end says %s for: %s %s" % (inv, c["verdict"], c["text"].replace("\n", " ; ")[:200], c.get("detail", "")), {"case": c}, sig)
    acc = sum(1 for c in cases if c["verdict"] == "accept")
    # annotation types (function signatures, process types, cut annotations): Typing.tla decides them; a program accepted although one of its
    # annotation types is ill-formed is attributed to this property (relaxation "wf")
    import typing_oracle
    tyc = typing_oracle.report(v, "C10", typing_oracle.stage())
    cov = {"states": max(1, st), "transitions": max(1, ge), "traces_validated_against_impl": len(cases) - len(fails),
           "samples": [{"text": c["text"], "verdict": c["verdict"]} for c in cases[:3] + cases[-2:]],
           "definition_sets": len(cases), "accepted": acc, "rejected": sum(1 for c in cases if c["verdict"] == "reject"),
           "parse_errors_skipped": len(camp["cases"]) - len(cases), "shape_sets": camp["shapes"]}
    cov.update(tyc)
    vlib.write_evidence("C10", "model_checking", cov, time.time() - t0, len(v.violations),
                        ["definition sequences of length <= 3 over the shape grammar of TypeEnum.tla (+ ill-formed shapes, duplicates, undefined references, contradicting annotations), rendered to text and passed through the real parser and Typecheck"])
    return v.finish()


def c16():
    t0 = time.time()
    v = vlib.Verdict("C16")
    camp = types_campaign()
    cases = [c for c in camp["cases"] if c["verdict"] == "accept"]
    proj = lambda c: {"w": c["w"], "verdict": c["verdict"], "modes": c["modes"], "unfold": c["unfold"]}
    st, ge, fails = validate_cases(camp["work"], "TypeDefs", DEFS_CFG % "InferenceOK AnnotationStable OrderIndependent", cases, proj)
    for inv, c in fails:
        if inv == "tlc-error":
            v.harness_errors.append("TypeDefs: " + c["error"]); continue
        if inv != "InferenceOK":
            v.harness_errors.append("specification theorem %s fails on %s" % (inv, c["text"][:200])); continue
        v.violation("modes assigned by the front end differ from the specified inference for: %s" % c["text"].replace("\n", " ; ")[:240], {"case": c},
                    {"inv": inv})
    # metamorphic on the real code: permuting declarations / writing the inferred annotation leaves verdict and modes unchanged
    rng = random.Random(vlib.seed())
    w = vlib.Worker(timeout=10)
    meta = 0
    for c in rng.sample(cases, min(len(cases), 150 if vlib.tier() == "quick" else 1500)):
        base = {m["name"]: m for m in c["modes"]}
        variants = []
        perm = list(c["w"]); rng.shuffle(perm)
        variants.append(("permuted", perm))
        expl = [dict(d, ann=(d["ann"] if d["t"]["k"] in ("up", "down") else base[d["name"]]["mode"])) for d in c["w"]]
        variants.append(("explicit-annotation", expl))
        for kind, defs in variants:
            text = "\n".join(written_text(d) for d in defs) + "\n"
            r = w.call({"op": "check", "text": text, "dump": True})
            meta += 1
            ok = r.get("tc") == "ok" and {m["name"]: m for m in r["dump"]["types"]} == base
            if not ok:
                v.violation("%s variant changes verdict or modes: %s  =>  %s" % (kind, c["text"].replace("\n", " ; ")[:150], text.replace("\n", " ; ")[:150]),
                            {"original": c, "variant": text, "reply": {k: r.get(k) for k in ("parse", "tc", "crash")}}, {"kind": kind})
    w.stop()
    # annotations inside programs (cut annotations, signatures): the call-cut family of the typing oracle writes every mode / omits it
    import typing_oracle
    tyc = typing_oracle.report(v, "C16", typing_oracle.stage())
    cov = {"states": max(1, st), "transitions": max(1, ge), "traces_validated_against_impl": len(cases) - len(fails),
           "samples": [{"text": c["text"], "modes": c["modes"]} for c in cases[:2]],
           "accepted_definition_sets": len(cases), "metamorphic_variants_run": meta, "shape_sets": camp["shapes"]}
    cov.update(tyc)
    vlib.write_evidence("C16", "model_checking", cov, time.time() - t0, len(v.violations),
                        ["type definitions only (signatures / cut annotations go through the same AddMissingModalities; covered by the typing corpus)"])
    return v.finish()


CHECKS["C10"] = c10
CHECKS["C16"] = c16
