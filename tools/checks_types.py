"""C17 (modes), C08 (type equality), C10 (well-formedness), C16 (mode inference)."""
import json, time, os, itertools, random
import vlib

MODES = ["rep", "mul", "aff", "lin"]

MODES_CFG = """SPECIFICATION Spec
INVARIANTS OrderAsSpecified Reflexive Transitive Antisymmetric TopBottom Incomparable Converse SigmaAsSpecified Monotone EqualsIsIdentity Spellings Names
CHECK_DEADLOCK FALSE
"""


def c17():
    t0 = time.time()
    vlib.build(("vworker",))
    v = vlib.Verdict("C17")
    w = vlib.Worker()
    r = w.call({"op": "modes"})
    w.stop()
    if "table" not in r:
        v.violation("the Modality methods could not be tabulated: " + json.dumps(r)[:300], {"reply": r}, {})
        vlib.write_evidence("C17", "model_checking", {"evaluations": 1, "distinct_nontrivial": 2, "rule": "n/a", "samples": [r]}, time.time() - t0, 1)
        return v.finish()
    t = r["table"]
    nested = lambda d, sep: {a: {b: d[a + sep + b] for b in MODES} for a in MODES}
    doc = ["r", "rep", "replicable", "m", "mul", "multicast", "a", "aff", "affine", "l", "lin", "linear"]
    table = {"down": nested(t["down"], ">"), "up": nested(t["up"], ">"), "eq": nested(t["eq"], "="), "weak": t["weak"], "contr": t["contr"],
             "full": t["full"], "short": t["short"], "spell": {s: t["spell"][s] for s in doc if s in t["spell"]},
             "undoc": {("u%d" % i): x for i, (s, x) in enumerate(sorted(t["spell"].items())) if s.lower() not in doc}}
    with vlib.Work("c17") as work:
        path = work.path("modes.json")
        json.dump(table, open(path, "w"))
        res = vlib.tlc("Modes", MODES_CFG, env={"VERIF_MODES": path}, workers=1, timeout=120, work=work)
    if res["violated"]:
        st = vlib.last_state_vars(res["out"], ["m", "k", "j"])
        v.violation("law %s fails on the recorded mode table at %s" % (res["violated"], st), {"table": table, "law": res["violated"], "tuple": st},
                    {"law": res["violated"]})
    elif not res["ok"]:
        v.harness_errors.append("TLC: " + str(res["error_text"])[:500])
    cov = {"states": max(1, res["distinct"]), "transitions": max(1, res["generated"]), "traces_validated_against_impl": 1,
           "samples": [{"recorded_table": table}], "exhaustive": True, "tuples": 64,
           "laws": MODES_CFG.split("INVARIANTS ")[1].split("\n")[0].split()}
    vlib.write_evidence("C17", "model_checking", cov, time.time() - t0, len(v.violations),
                        ["the table is recorded from the real methods of types/modality.go in this run; the laws are checked by TLC on that table for all 64 triples"])
    return v.finish()


CHECKS = {"C17": c17}
