// vworker serves library calls of gertab/Grits (types, parser, typechecker) one JSON request per
// line, so that a crash, stack overflow or hang of the library is an observation of the caller
// (EOF / time-out), not a failure of the harness.
package main

import (
	"bufio"
	"encoding/base64"
	"encoding/json"
	"fmt"
	"io"
	"os"
	"runtime"
	"runtime/debug"
	"strings"
	"sync"
	"syscall"
	"time"

	"grits/parser"
	"grits/process"
	"grits/types"
)

type Req struct {
	Id      int               `json:"id"`
	Op      string            `json:"op"`
	Text    string            `json:"text"`
	B64     string            `json:"b64"` // text as base64 (arbitrary bytes); overrides Text
	Defs    []json.RawMessage `json:"defs"`    // [{name, t}]
	Queries [][2]json.RawMessage `json:"queries"` // pairs of types
	Types   []json.RawMessage `json:"types"`
	GraceMs int               `json:"grace_ms"`
	Dump    bool              `json:"dump"`
	Envs    [][]json.RawMessage `json:"envs"`   // eqseq: several sets of definitions
	Rounds  int               `json:"rounds"`
	Order   []string          `json:"order"` // modes: the order in which the order queries are asked first ("down:a:b" / "up:a:b")
}

type tdef struct {
	Name string          `json:"name"`
	T    json.RawMessage `json:"t"`
}

func mode(s string) types.Modality {
	if s == "" || s == "unset" {
		return types.NewUnsetMode()
	}
	return types.StringToMode(s)
}

// build constructs a session type from its JSON rendering (same shape as process.VerifType)
func build(raw json.RawMessage) types.SessionType {
	var m map[string]json.RawMessage
	if err := json.Unmarshal(raw, &m); err != nil {
		panic("bad type json: " + err.Error())
	}
	str := func(k string) string {
		var s string
		if v, ok := m[k]; ok {
			json.Unmarshal(v, &s)
		}
		return s
	}
	opts := func() []types.Option {
		var bs []struct {
			Label string          `json:"label"`
			T     json.RawMessage `json:"t"`
		}
		json.Unmarshal(m["br"], &bs)
		r := make([]types.Option, len(bs))
		for i, b := range bs {
			r[i] = types.Option{Label: b.Label, SessionType: build(b.T)}
		}
		return r
	}
	switch str("k") {
	case "name":
		return types.NewLabelType(str("name"), mode(str("mode")))
	case "unit":
		return types.NewUnitType(mode(str("mode")))
	case "send":
		return types.NewSendType(build(m["l"]), build(m["r"]), mode(str("mode")))
	case "recv":
		return types.NewReceiveType(build(m["l"]), build(m["r"]), mode(str("mode")))
	case "sel":
		return types.NewSelectLabelType(opts(), mode(str("mode")))
	case "bra":
		return types.NewBranchCaseType(opts(), mode(str("mode")))
	case "up":
		return types.NewUpType(mode(str("from")), mode(str("to")), build(m["t"]))
	case "down":
		return types.NewDownType(mode(str("from")), mode(str("to")), build(m["t"]))
	}
	panic("unknown type kind " + str("k"))
}

func buildDefs(raw []json.RawMessage) []types.SessionTypeDefinition {
	var defs []types.SessionTypeDefinition
	for _, r := range raw {
		var d tdef
		json.Unmarshal(r, &d)
		defs = append(defs, types.SessionTypeDefinition{Name: d.Name, SessionType: build(d.T)})
	}
	return defs
}

func captureStdout(f func()) string {
	old := os.Stdout
	r, w, err := os.Pipe()
	if err != nil {
		f()
		return ""
	}
	os.Stdout = w
	var buf strings.Builder
	var wg sync.WaitGroup
	wg.Add(1)
	go func() { defer wg.Done(); io.Copy(&buf, r) }()
	f()
	os.Stdout = old
	w.Close()
	wg.Wait()
	r.Close()
	return buf.String()
}

func cpuMicros() int64 {
	var ru syscall.Rusage
	if err := syscall.Getrusage(syscall.RUSAGE_SELF, &ru); err != nil {
		return 0
	}
	return ru.Utime.Sec*1e6 + int64(ru.Utime.Usec) + ru.Stime.Sec*1e6 + int64(ru.Stime.Usec)
}

func errStr(e error) string {
	if e == nil {
		return "ok"
	}
	return "error: " + e.Error()
}

func modesTable(order []string) map[string]interface{} {
	names := []string{"rep", "mul", "aff", "lin"}
	ms := map[string]types.Modality{}
	for _, n := range names {
		ms[n] = types.StringToMode(n)
	}
	down, up, eq := map[string]bool{}, map[string]bool{}, map[string]bool{}
	// the order queries are first asked in the requested order (the relation must not depend on the history of queries) ...
	unstable := []string{}
	for _, q := range order {
		parts := strings.Split(q, ":")
		if len(parts) != 3 || ms[parts[1]] == nil || ms[parts[2]] == nil {
			continue
		}
		a, b := parts[1], parts[2]
		if parts[0] == "down" {
			down[a+">"+b] = ms[a].CanBeDownshiftedTo(ms[b])
		} else {
			up[a+">"+b] = ms[a].CanBeUpshiftedTo(ms[b])
		}
	}
	// ... then every pair is asked (again): a changed answer is recorded
	for _, a := range names {
		for _, b := range names {
			d, u := ms[a].CanBeDownshiftedTo(ms[b]), ms[a].CanBeUpshiftedTo(ms[b])
			if old, ok := down[a+">"+b]; ok && old != d {
				unstable = append(unstable, "down:"+a+":"+b)
			} else if !ok {
				down[a+">"+b] = d
			}
			if old, ok := up[a+">"+b]; ok && old != u {
				unstable = append(unstable, "up:"+a+":"+b)
			} else if !ok {
				up[a+">"+b] = u
			}
			eq[a+"="+b] = ms[a].Equals(ms[b])
		}
	}
	w, c, full, short := map[string]bool{}, map[string]bool{}, map[string]string{}, map[string]string{}
	for _, a := range names {
		w[a] = ms[a].AllowsWeakening()
		c[a] = ms[a].AllowsContraction()
		full[a] = ms[a].FullString()
		short[a] = ms[a].String()
	}
	sp := map[string]string{}
	for _, s := range []string{"r", "rep", "replicable", "m", "mul", "multicast", "a", "aff", "affine", "l", "lin", "linear",
		"R", "Rep", "LINEAR", "Aff", "MUL", "x", "", "linn", "re", "multi", "unset", "invalid"} {
		sp[s] = types.StringToMode(s).String()
	}
	return map[string]interface{}{"down": down, "up": up, "eq": eq, "weak": w, "contr": c, "full": full, "short": short, "spell": sp, "unstable": unstable}
}

func handle(rq Req) (resp map[string]interface{}) {
	resp = map[string]interface{}{"id": rq.Id}
	if rq.B64 != "" {
		if b, err := base64.StdEncoding.DecodeString(rq.B64); err == nil {
			rq.Text = string(b)
		}
	}
	switch rq.Op {
	case "ping":
		resp["pong"] = true
	case "modes":
		resp["table"] = modesTable(rq.Order)
	case "eq":
		// type definitions given structurally with all modes explicit; queries are pairs of types
		defs := buildDefs(rq.Defs)
		for i := range defs {
			defs[i].Modality = defs[i].SessionType.Modality()
		}
		env := types.ProduceLabelledSessionTypeEnvironment(defs)
		resp["wf"] = errStr(types.SanityChecksTypeDefinitions(defs))
		var rs []bool
		for _, q := range rq.Queries {
			rs = append(rs, types.EqualType(build(q[0]), build(q[1]), env))
		}
		resp["results"] = rs
	case "eqseq":
		// history independence of EqualType: the same queries are asked under two sets of definitions in alternation, many times, each time with
		// freshly built environments and a collection in between (so that a new environment may land where a dead one was); every DISTINCT
		// result vector observed for either set is reported
		var sets [][]types.SessionTypeDefinition
		for _, raw := range rq.Envs {
			d := buildDefs(raw)
			for i := range d {
				d[i].Modality = d[i].SessionType.Modality()
			}
			sets = append(sets, d)
		}
		rounds := rq.Rounds
		if rounds <= 0 {
			rounds = 50
		}
		seen := make([]map[string][]bool, len(sets))
		for i := range seen {
			seen[i] = map[string][]bool{}
		}
		for r := 0; r < rounds; r++ {
			for k, d := range sets {
				reps := 1
				if k > 0 {
					reps = 24
				}
				for j := 0; j < reps; j++ {
					env := types.ProduceLabelledSessionTypeEnvironment(d)
					var rs []bool
					key := ""
					for _, q := range rq.Queries {
						v := types.EqualType(build(q[0]), build(q[1]), env)
						rs = append(rs, v)
						if v {
							key += "1"
						} else {
							key += "0"
						}
					}
					seen[k][key] = rs
				}
				runtime.GC()
			}
		}
		var out [][][]bool
		for k := range sets {
			var vs [][]bool
			for _, rs := range seen[k] {
				vs = append(vs, rs)
			}
			out = append(out, vs)
		}
		resp["vectors"] = out
	case "wfdefs":
		// the pipeline of the parser (SetModalityTypeDef) + the typechecker's preliminary check, on structural definitions
		defs := buildDefs(rq.Defs)
		types.SetModalityTypeDef(defs)
		resp["wf"] = errStr(types.SanityChecksTypeDefinitions(defs))
		var ds []interface{}
		for _, d := range defs {
			ds = append(ds, map[string]interface{}{"name": d.Name, "mode": d.Modality.String(), "t": process.VerifType(d.SessionType)})
		}
		resp["defs"] = ds
		var unf []interface{}
		if resp["wf"] == "ok" {
			env := types.ProduceLabelledSessionTypeEnvironment(defs)
			for _, d := range defs {
				u := types.Unfold(types.NewLabelType(d.Name, d.Modality), env)
				unf = append(unf, process.VerifType(u))
			}
		}
		resp["unfold"] = unf
	case "check":
		procs, assumed, genv, err := parser.ParseString(rq.Text)
		resp["parse"] = errStr(err)
		if err != nil {
			return
		}
		resp["nprocs"], resp["nfuncs"], resp["ntypes"], resp["nassumed"] = len(procs), len(*genv.FunctionDefinitions), len(*genv.Types), len(assumed)
		var pn, fn, tn []string
		for _, p := range procs {
			for _, n := range p.Providers {
				pn = append(pn, n.Ident)
			}
		}
		for _, f := range *genv.FunctionDefinitions {
			fn = append(fn, f.FunctionName)
		}
		for _, t := range *genv.Types {
			tn = append(tn, t.Name)
		}
		resp["procnames"], resp["funcnames"], resp["typenames"] = pn, fn, tn
		genv.LogLevels = []process.LogLevel{}
		terr := process.Typecheck(procs, assumed, genv)
		if rq.GraceMs > 0 {
			time.Sleep(time.Duration(rq.GraceMs) * time.Millisecond)
		}
		resp["tc"] = errStr(terr)
		if terr == nil {
			env := types.ProduceLabelledSessionTypeEnvironment(*genv.Types)
			var unf []interface{}
			for _, d := range *genv.Types {
				unf = append(unf, process.VerifType(types.Unfold(types.NewLabelType(d.Name, d.Modality), env)))
			}
			resp["unfold"] = unf
		}
		if rq.Dump {
			resp["dump"] = process.VerifDumpProgram(procs, genv)
		}
	case "parse":
		// timing: the collector is switched off while the text is parsed (its parallel marking makes both wall and processor time of one and the
		// same parse vary by an order of magnitude on a loaded machine); cpu_us is the processor time of the worker process, which does not count
		// the time the process waited for a core
		runtime.GC()
		old := debug.SetGCPercent(-1)
		c0 := cpuMicros()
		t0 := time.Now()
		procs, assumed, genv, err := parser.ParseString(rq.Text)
		resp["us"] = time.Since(t0).Microseconds()
		resp["cpu_us"] = cpuMicros() - c0
		debug.SetGCPercent(old)
		resp["parse"] = errStr(err)
		if err == nil {
			var pn, fn, tn []string
			for _, p := range procs {
				for _, n := range p.Providers {
					pn = append(pn, n.Ident)
				}
			}
			for _, f := range *genv.FunctionDefinitions {
				fn = append(fn, f.FunctionName)
			}
			for _, t := range *genv.Types {
				tn = append(tn, t.Name)
			}
			resp["procnames"], resp["funcnames"], resp["typenames"] = pn, fn, tn
			resp["nprocs"], resp["nfuncs"], resp["ntypes"], resp["nassumed"] = len(procs), len(*genv.FunctionDefinitions), len(*genv.Types), len(assumed)
			if rq.Dump {
				resp["dump"] = process.VerifDumpProgram(procs, genv)
			}
		}
	case "forms":
		// parse only; every function / process body printed by Form.String(), next to the dump of the program (C15, process terms)
		procs, _, genv, err := parser.ParseString(rq.Text)
		resp["parse"] = errStr(err)
		if err != nil {
			return
		}
		var fb, pb []string
		for _, f := range *genv.FunctionDefinitions {
			fb = append(fb, f.Body.String())
		}
		for _, p := range procs {
			pb = append(pb, p.Body.String())
		}
		resp["funcbodies"], resp["procbodies"] = fb, pb
		resp["dump"] = process.VerifDumpProgram(procs, genv)
	case "lex":
		out := captureStdout(func() { parser.LexAndPrintTokens(strings.NewReader(rq.Text)) })
		var toks [][2]string
		for _, l := range strings.Split(out, "\n") {
			if strings.HasPrefix(l, "\t") {
				parts := strings.SplitN(l[1:], "\t", 2)
				if len(parts) == 2 {
					toks = append(toks, [2]string{parts[0], parts[1]})
				}
			}
		}
		resp["tokens"] = toks
	case "print":
		// print each structural type, with and without modes
		var ps []interface{}
		for _, t := range rq.Types {
			st := build(t)
			ps = append(ps, map[string]string{"s": st.String(), "sm": st.StringWithModality(), "so": st.StringWithOuterModality()})
		}
		resp["printed"] = ps
	default:
		resp["error"] = "unknown op " + rq.Op
	}
	return
}

func main() {
	sc := bufio.NewScanner(os.Stdin)
	sc.Buffer(make([]byte, 1<<20), 1<<28)
	out := bufio.NewWriter(os.Stderr)
	realOut := os.NewFile(3, "results")
	if realOut == nil {
		fmt.Fprintln(os.Stderr, "fd 3 missing")
		os.Exit(3)
	}
	_ = out
	enc := json.NewEncoder(realOut)
	for sc.Scan() {
		line := strings.TrimSpace(sc.Text())
		if line == "" {
			continue
		}
		var rq Req
		if err := json.Unmarshal([]byte(line), &rq); err != nil {
			enc.Encode(map[string]interface{}{"error": "bad request: " + err.Error()})
			continue
		}
		func() {
			defer func() {
				if r := recover(); r != nil {
					enc.Encode(map[string]interface{}{"id": rq.Id, "panic": fmt.Sprint(r)})
				}
			}()
			enc.Encode(handle(rq))
		}()
	}
}
