package main

func main() {}
