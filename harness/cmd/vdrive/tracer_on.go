//go:build verif

package main

import (
	"bytes"
	"math/rand"
	"os"
	"runtime"
	"strconv"
	"sync"
	"time"

	"grits/process"
)

const hooksOn = true

// Ev is one trace event. Every field is always present so that the TLA+ side can
// access any of them; channel / process ids are creator-relative paths (sequences).
type Ev struct {
	Seq   int     `json:"seq"`
	E     string  `json:"e"`
	P     []int   `json:"p"`
	C     []int   `json:"c"`
	Ctl   bool    `json:"ctl"`
	Rule  string  `json:"rule"`
	Label string  `json:"label"`
	Ch1   []int   `json:"ch1"`
	Ch2   []int   `json:"ch2"`
	Pol1  string  `json:"pol1"`
	Pol2  string  `json:"pol2"`
	Provs [][]int `json:"provs"`
	Child []int   `json:"child"`
	Kind  string  `json:"kind"`
	Self  string  `json:"self"` // which name of the head form is self: to | from | cont | ""
	Names [][]int `json:"names"`
	Drop  bool    `json:"drop"`
	How   string  `json:"how"`
	Fn    string  `json:"fn"`
	Tree  []int   `json:"tree"` // identities of the Form nodes reachable from the process body, in the dump's preorder (ownership layer)
}

type pinfo struct {
	pid     []int
	nc, ns  int
	proc    *process.Process
	gate    chan struct{}
	parked  bool
	ended   bool
	last    string // last event kind
	lastK   string // head kind at last gate
	lastC   []int  // channel of the pending operation
	steps   int
	sending bool
}

type tracer struct {
	mu      sync.Mutex
	seq     int
	gen     int
	gor     map[int64]*pinfo
	procs   map[*process.Process]*pinfo
	chans   map[chan process.Message][]int
	ctls    map[chan process.ControlMessage][]int
	root    *pinfo
	rootGo  int64
	events  []Ev
	env     *process.GlobalEnvironment
	rng     *rand.Rand
	yield   float64
	control bool          // gate-controlled (replay) mode
	settleQ time.Duration // > 0: Quiesce holds the declaration of quiescence back until this long has passed without an event
	lastEv  time.Time     // time of the last logged event (record mode: keeps the heartbeat alive while events keep coming)
	cond    *sync.Cond
	quiesce bool
	late    int // events after quiesce (premature time-out indicator)
	order   []*pinfo
	tcEv    []string
	maxEv   int
	over    bool
	nodes   map[process.Form]int // identity of every Form node ever seen in a process body (the map also pins the nodes: no address re-use)
}

// maxTree bounds the number of node identities logged per event (a preorder prefix of a larger body).
const maxTree = 96

// tree lists the identities of the numbered Form nodes of a body in the dump's preorder (branch records are not numbered).
func (t *tracer) tree(p *process.Process) []int {
	r := []int{}
	for _, f := range process.VerifFormNodes(p.Body) {
		if _, isBranch := f.(*process.BranchForm); isBranch {
			continue
		}
		id, ok := t.nodes[f]
		if !ok {
			id = len(t.nodes) + 1
			t.nodes[f] = id
		}
		r = append(r, id)
		if len(r) >= maxTree {
			break
		}
	}
	return r
}

func setMaxEvents(t *tracer, n int) {
	if t == nil {
		return
	}
	if n <= 0 {
		n = 30000
	}
	t.maxEv = n
}

func overflowed(t *tracer) bool { return t != nil && t.over }

func goid() int64 {
	var b [64]byte
	n := runtime.Stack(b[:], false)
	s := b[10:n]
	i := bytes.IndexByte(s, ' ')
	id, _ := strconv.ParseInt(string(s[:i]), 10, 64)
	return id
}

func newTracer(env *process.GlobalEnvironment, seed int64, yield float64, control bool) *tracer {
	t := &tracer{gor: map[int64]*pinfo{}, procs: map[*process.Process]*pinfo{}, chans: map[chan process.Message][]int{},
		ctls: map[chan process.ControlMessage][]int{}, nodes: map[process.Form]int{}, env: env, rng: rand.New(rand.NewSource(seed)), yield: yield, control: control}
	t.root = &pinfo{pid: []int{0}}
	t.rootGo = goid()
	t.cond = sync.NewCond(&t.mu)
	return t
}

func cp(a []int) []int { return append([]int{}, a...) }

// actor returns the process whose goroutine is running (root for the driver goroutine), or nil.
func (t *tracer) actor() *pinfo {
	g := goid()
	if g == t.rootGo {
		return t.root
	}
	return t.gor[g]
}

func (t *tracer) cid(ch chan process.Message) []int {
	if ch == nil {
		return []int{}
	}
	if c, ok := t.chans[ch]; ok {
		return c
	}
	return []int{-1}
}

func (t *tracer) emit(e Ev) {
	t.lastEv = time.Now()
	t.seq++
	e.Seq = t.seq
	if e.P == nil {
		e.P = []int{}
	}
	if e.C == nil {
		e.C = []int{}
	}
	if e.Ch1 == nil {
		e.Ch1 = []int{}
	}
	if e.Ch2 == nil {
		e.Ch2 = []int{}
	}
	if e.Provs == nil {
		e.Provs = [][]int{}
	}
	if e.Child == nil {
		e.Child = []int{}
	}
	if e.Names == nil {
		e.Names = [][]int{}
	}
	if e.Tree == nil {
		e.Tree = []int{}
	}
	if t.quiesce && e.E != "quiesce" {
		t.late++
	}
	if t.maxEv > 0 && len(t.events) >= t.maxEv {
		t.over = true
		return
	}
	t.events = append(t.events, e)
}

func (t *tracer) maybeYield() {
	if t.yield <= 0 {
		return
	}
	t.mu.Lock()
	r := t.rng.Float64()
	d := t.rng.Intn(200)
	t.mu.Unlock()
	if r < t.yield {
		runtime.Gosched()
	} else if r < 1.5*t.yield {
		time.Sleep(time.Duration(d) * time.Microsecond)
	}
}

func (t *tracer) provs(p *process.Process) [][]int {
	r := [][]int{}
	for _, n := range p.Providers {
		r = append(r, t.cid(n.Channel))
	}
	return r
}

// head fills the description of the head form of p.
func (t *tracer) head(e *Ev, p *process.Process) {
	h := process.VerifDescribe(p.Body, t.env)
	e.Kind = h.Kind
	e.Label = h.Label
	e.Fn = h.Fn
	e.Drop = h.Drop
	order := []string{"to", "from", "c", "pay", "cont"}
	for _, k := range order {
		if n, ok := h.Names[k]; ok {
			if n.Self {
				if e.Self == "" {
					e.Self = k
				}
				e.Names = append(e.Names, []int{})
			} else {
				e.Names = append(e.Names, t.cid(n.Chan))
			}
		}
	}
	for _, a := range h.Args {
		if a.Self {
			e.Names = append(e.Names, []int{})
		} else {
			e.Names = append(e.Names, t.cid(a.Chan))
		}
	}
}

func (t *tracer) Chan(ident string, ch chan process.Message, ctl chan process.ControlMessage) {
	t.mu.Lock()
	defer t.mu.Unlock()
	a := t.actor()
	if a == nil {
		return
	}
	a.nc++
	id := append(cp(a.pid), a.nc)
	t.chans[ch] = id
	if ctl != nil {
		t.ctls[ctl] = id
	}
}

func (t *tracer) Spawn(child *process.Process) {
	t.mu.Lock()
	a := t.actor()
	if a == nil {
		t.mu.Unlock()
		return
	}
	a.ns++
	pi := &pinfo{pid: append(cp(a.pid), a.ns), proc: child, gate: make(chan struct{}, 1)}
	if a == t.root {
		pi.pid = []int{a.ns}
	}
	t.procs[child] = pi
	t.order = append(t.order, pi)
	e := Ev{E: "spawn", P: cp(a.pid), Child: cp(pi.pid), Provs: t.provs(child), Tree: t.tree(child)}
	t.head(&e, child)
	t.emit(e)
	t.cond.Broadcast()
	t.mu.Unlock()
}

func (t *tracer) Gate(p *process.Process, re *process.RuntimeEnvironment) {
	t.mu.Lock()
	pi := t.procs[p]
	if pi == nil {
		t.mu.Unlock()
		return
	}
	t.gor[goid()] = pi
	e := Ev{E: "at", P: cp(pi.pid), Provs: t.provs(p), Tree: t.tree(p)}
	t.head(&e, p)
	t.emit(e)
	pi.last, pi.lastK, pi.sending = "at", e.Kind, false
	pi.lastC = nil
	pi.steps++
	pi.parked = true
	t.cond.Broadcast()
	control := t.control
	t.mu.Unlock()
	if control {
		<-pi.gate
		t.mu.Lock()
		pi.parked = false
		t.mu.Unlock()
	} else {
		t.maybeYield()
	}
}

func ruleName(r process.Rule) string { return process.RuleString[r] }

func (t *tracer) msgEv(kind string, p *process.Process, ch chan process.Message, m process.Message) {
	t.mu.Lock()
	pi := t.procs[p]
	if pi == nil {
		t.mu.Unlock()
		return
	}
	e := Ev{E: kind, P: cp(pi.pid), C: t.cid(ch), Rule: ruleName(m.Rule), Label: m.Label.L,
		Ch1: t.cid(m.Channel1.Channel), Ch2: t.cid(m.Channel2.Channel)}
	e.Pol1 = process.VerifNameOf(m.Channel1, t.env).Pol
	e.Pol2 = process.VerifNameOf(m.Channel2, t.env).Pol
	for _, n := range m.Providers {
		e.Provs = append(e.Provs, t.cid(n.Channel))
	}
	t.emit(e)
	pi.last = kind
	pi.lastC = e.C
	pi.sending = kind == "send"
	t.cond.Broadcast()
	t.mu.Unlock()
	t.maybeYield()
}

func (t *tracer) Send(p *process.Process, ch chan process.Message, m process.Message) {
	t.msgEv("send", p, ch, m)
}
func (t *tracer) Recv(p *process.Process, ch chan process.Message, m process.Message) {
	t.msgEv("recv", p, ch, m)
}

func (t *tracer) ctlEv(kind string, p *process.Process, ch chan process.ControlMessage, m process.ControlMessage) {
	t.mu.Lock()
	pi := t.procs[p]
	if pi == nil {
		t.mu.Unlock()
		return
	}
	c, ok := t.ctls[ch]
	if !ok {
		c = []int{-1}
	}
	e := Ev{E: kind, P: cp(pi.pid), C: c, Ctl: true, Rule: "FWD"}
	for _, n := range m.Providers {
		e.Provs = append(e.Provs, t.cid(n.Channel))
	}
	t.emit(e)
	pi.last = kind
	t.cond.Broadcast()
	t.mu.Unlock()
	t.maybeYield()
}

func (t *tracer) CtlSend(p *process.Process, ch chan process.ControlMessage, m process.ControlMessage) {
	t.ctlEv("send", p, ch, m)
}
func (t *tracer) CtlRecv(p *process.Process, ch chan process.ControlMessage, m process.ControlMessage) {
	t.ctlEv("recv", p, ch, m)
}

func (t *tracer) Rule(p *process.Process, r process.Rule) {
	if r != process.CALL {
		return
	}
	t.mu.Lock()
	defer t.mu.Unlock()
	pi := t.procs[p]
	if pi == nil {
		return
	}
	t.emit(Ev{E: "call", P: cp(pi.pid)})
}

func (t *tracer) Print(p *process.Process, label string) {
	t.mu.Lock()
	pi := t.procs[p]
	if pi != nil {
		t.emit(Ev{E: "print", P: cp(pi.pid), Label: label})
	}
	t.mu.Unlock()
	t.maybeYield()
}

func (t *tracer) End(p *process.Process, how string) {
	t.mu.Lock()
	defer t.mu.Unlock()
	pi := t.procs[p]
	if pi == nil {
		return
	}
	t.emit(Ev{E: "end", P: cp(pi.pid), How: how})
	pi.ended = true
	pi.last = "end"
	t.cond.Broadcast()
}

func (t *tracer) Quiesce(re *process.RuntimeEnvironment) {
	// The 50 ms timer has fired. On a loaded machine that happens in the middle of healthy runs (the recorder's own heartbeats can be starved like
	// everybody else's), so the declaration is held back here, at the time-out site itself, until settleQ has passed - counted in slices this
	// goroutine was actually awake for, not in wall-clock time - without a single hook event. Heartbeats are taken off the channel meanwhile so
	// that no process blocks on it.
	t.mu.Lock()
	settle, last := t.settleQ, t.lastEv
	t.mu.Unlock()
	if settle > 0 {
		const slice = 500 * time.Microsecond
		need, quiet := int(settle/slice), 0
		for quiet < need {
			for process.VerifDrainHeartbeat(re) {
			}
			time.Sleep(slice)
			t.mu.Lock()
			cur := t.lastEv
			t.mu.Unlock()
			if !cur.Equal(last) {
				last, quiet = cur, 0
			} else {
				quiet++
			}
		}
	}
	t.mu.Lock()
	defer t.mu.Unlock()
	t.emit(Ev{E: "quiesce"})
	t.quiesce = true
	t.cond.Broadcast()
}

func (t *tracer) Tc(phase string) {
	t.mu.Lock()
	defer t.mu.Unlock()
	t.tcEv = append(t.tcEv, phase)
}

// Blocked is one live process at quiescence.
type Blocked struct {
	P    []int  `json:"p"`
	Last string `json:"last"`
	Kind string `json:"kind"`
	C    []int  `json:"c"`
	Self string `json:"self"`
}

func (t *tracer) snapshot() []Blocked {
	t.mu.Lock()
	defer t.mu.Unlock()
	r := []Blocked{}
	for _, pi := range t.order {
		if pi.ended {
			continue
		}
		b := Blocked{P: cp(pi.pid), Last: pi.last, Kind: pi.lastK, C: pi.lastC}
		if b.C == nil {
			b.C = []int{}
		}
		r = append(r, b)
	}
	return r
}

func install(t *tracer) {
	if t == nil {
		process.VerifT = nil
		return
	}
	process.VerifT = t
}

func dumpProgram(procs []*process.Process, env *process.GlobalEnvironment) interface{} {
	return process.VerifDumpProgram(procs, env)
}

// replay releases processes one at a time following sched (a list of pids).
// It returns the index at which it diverged (-1 if the whole schedule was executed) and a reason.
func (t *tracer) replay(re *process.RuntimeEnvironment, sched [][]int, stepTimeout time.Duration) (int, string) {
	find := func(pid []int) *pinfo {
		for _, pi := range t.order {
			if eqPid(pi.pid, pid) {
				return pi
			}
		}
		return nil
	}
	waitUntil := func(cond func() bool) bool {
		deadline := time.Now().Add(stepTimeout)
		t.mu.Lock()
		defer t.mu.Unlock()
		for !cond() {
			if time.Now().After(deadline) {
				return false
			}
			t.mu.Unlock()
			time.Sleep(100 * time.Microsecond)
			t.mu.Lock()
		}
		return true
	}
	for i, pid := range sched {
		var pi *pinfo
		if !waitUntil(func() bool { pi = find(pid); return pi != nil && (pi.parked || pi.ended) }) {
			return i, "process never parked"
		}
		t.mu.Lock()
		if pi.ended {
			t.mu.Unlock()
			return i, "process already ended"
		}
		before := pi.steps
		pi.parked = false
		t.mu.Unlock()
		pi.gate <- struct{}{}
		// stable: parked again, ended, or blocked in a send (sync modes) / in a receive (recorded as such)
		if !waitUntil(func() bool { return pi.ended || (pi.parked && pi.steps > before) || pi.sending }) {
			return i, "step did not complete"
		}
	}
	return -1, ""
}

// replayPlan drives the real interpreter along a behaviour of the specification: for every action it lets the parked participants
// through the gate and waits until every process the action says logs an "at" is parked again (or for the first time) and every process
// it says ends has ended.  Returns the index of the first action the code did not follow (-1 = followed to the end).
func (t *tracer) replayPlan(plan []PlanStep, stepTimeout time.Duration) (int, string) {
	find := func(pid []int) *pinfo {
		for _, pi := range t.order {
			if eqPid(pi.pid, pid) {
				return pi
			}
		}
		return nil
	}
	waitUntil := func(cond func() bool) bool {
		deadline := time.Now().Add(stepTimeout)
		t.mu.Lock()
		defer t.mu.Unlock()
		for !cond() {
			if time.Now().After(deadline) {
				return false
			}
			t.mu.Unlock()
			time.Sleep(50 * time.Microsecond)
			t.mu.Lock()
		}
		return true
	}
	isEnd := func(st PlanStep, pid []int) bool {
		for _, e := range st.Ends {
			if eqPid(e, pid) {
				return true
			}
		}
		return false
	}
	for i, st := range plan {
		// the participants must be parked at their gate
		before := map[*pinfo]int{}
		var rel []*pinfo
		for _, pid := range st.Rel {
			var pi *pinfo
			if !waitUntil(func() bool { pi = find(pid); return pi != nil && (pi.parked || pi.ended) }) {
				return i, "participant never reached its gate"
			}
			rel = append(rel, pi)
		}
		t.mu.Lock()
		for _, pid := range st.Done {
			if pi := find(pid); pi != nil {
				before[pi] = pi.steps
			}
		}
		for _, pi := range rel {
			if pi.ended {
				t.mu.Unlock()
				return i, "participant already ended"
			}
			pi.parked = false
		}
		t.mu.Unlock()
		// the participants that END in this action (senders, forwards) go first and get time to block in their select: a partner that only
		// polls its control channel (an internal form) takes the control message only if the forward is already waiting
		for pass := 0; pass < 2; pass++ {
			for _, pi := range rel {
				if isEnd(st, pi.pid) == (pass == 0) {
					pi.gate <- struct{}{}
					if pass == 0 && len(rel) > 1 {
						time.Sleep(800 * time.Microsecond)
					}
				}
			}
		}
		if st.Fail {
			// the specification says this action is a run-time error: the process panics (the driver dies with it); give it time
			time.Sleep(4 * time.Second)
			return i, "the specification's error step did not bring the interpreter down"
		}
		for _, pid := range st.Done {
			pid := pid
			ok := waitUntil(func() bool {
				pi := find(pid)
				if pi == nil {
					return false
				}
				if isEnd(st, pid) {
					return pi.ended
				}
				return pi.parked && pi.steps > before[pi]
			})
			if !ok {
				return i, "action did not complete"
			}
		}
	}
	return -1, ""
}

func eqPid(a, b []int) bool {
	if len(a) != len(b) {
		return false
	}
	for i := range a {
		if a[i] != b[i] {
			return false
		}
	}
	return true
}

// releaseAll opens every gate (end of a replay: let the rest run freely).
func (t *tracer) releaseAll() {
	t.mu.Lock()
	t.control = false
	for _, pi := range t.order {
		select {
		case pi.gate <- struct{}{}:
		default:
		}
	}
	t.mu.Unlock()
}

func (t *tracer) collect() ([]Ev, int) {
	t.mu.Lock()
	defer t.mu.Unlock()
	return append([]Ev{}, t.events...), t.late
}

// execTraced runs the program with the tracer installed; with a schedule it drives the gate.
func execTraced(t *tracer, re *process.RuntimeEnvironment, procs []*process.Process, sched [][]int, plan []PlanStep, sub *process.SubscriberInfo) (int, string) {
	if len(sched) == 0 && len(plan) == 0 {
		install(t)
		// The interpreter declares quiescence after 50 ms without a heartbeat, which a loaded machine can exceed in the middle
		// of a run. While hook events keep arriving, the recorder therefore adds heartbeats of its own, so that quiescence is
		// declared only after settleMs without any event (runs are judged at quiescence, never on how fast they got there).
		settle := 300 * time.Millisecond
		if v, err := strconv.Atoi(os.Getenv("VERIF_SETTLE_MS")); err == nil && v >= 0 {
			settle = time.Duration(v) * time.Millisecond
		}
		t.mu.Lock()
		t.settleQ = settle
		t.mu.Unlock()
		stop := make(chan struct{})
		go func() {
			for {
				select {
				case <-stop:
					return
				default:
				}
				t.mu.Lock()
				recent := !t.quiesce && !t.lastEv.IsZero() && time.Since(t.lastEv) < settle
				t.mu.Unlock()
				if recent {
					process.VerifKeepAlive(re)
				}
				time.Sleep(4 * time.Millisecond)
			}
		}()
		process.InitializeProcesses(procs, nil, sub, re)
		close(stop)
		return -1, ""
	}
	done := make(chan struct{})
	started := make(chan struct{})
	go func() {
		t.mu.Lock()
		t.rootGo = goid()
		t.mu.Unlock()
		install(t)
		close(started)
		process.InitializeProcesses(procs, nil, sub, re)
		close(done)
	}()
	<-started
	stopKA := make(chan struct{})
	go func() {
		for {
			select {
			case <-stopKA:
				return
			default:
				t.mu.Lock()
				started := len(t.order) > 0
				t.mu.Unlock()
				if started {
					process.VerifKeepAlive(re)
				}
				time.Sleep(2 * time.Millisecond)
			}
		}
	}()
	var div int
	var why string
	if len(plan) > 0 {
		div, why = t.replayPlan(plan, 12*time.Second)
	} else {
		div, why = t.replay(re, sched, 3*time.Second)
	}
	t.releaseAll()
	close(stopKA)
	// the rest of the run is free: as in record mode, keep the interpreter from declaring quiescence while hook events keep arriving
	settle := 300 * time.Millisecond
	if v, err := strconv.Atoi(os.Getenv("VERIF_SETTLE_MS")); err == nil && v >= 0 {
		settle = time.Duration(v) * time.Millisecond
	}
	t.mu.Lock()
	t.lastEv = time.Now()
	t.settleQ = settle
	t.mu.Unlock()
	stop2 := make(chan struct{})
	go func() {
		for {
			select {
			case <-stop2:
				return
			default:
			}
			t.mu.Lock()
			recent := !t.quiesce && time.Since(t.lastEv) < settle
			t.mu.Unlock()
			if recent {
				process.VerifKeepAlive(re)
			}
			time.Sleep(4 * time.Millisecond)
		}
	}()
	<-done
	close(stop2)
	return div, why
}
