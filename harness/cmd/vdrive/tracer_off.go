//go:build !verif

package main

import (
	"time"

	"grits/process"
)

const hooksOn = false

type Ev struct{}
type Blocked struct{}
type tracer struct {
	events []Ev
	late   int
	tcEv   []string
}

func newTracer(env *process.GlobalEnvironment, seed int64, yield float64, control bool) *tracer {
	return nil
}
func install(t *tracer)               {}
func (t *tracer) snapshot() []Blocked { return nil }
func (t *tracer) releaseAll()         {}
func (t *tracer) replay(re *process.RuntimeEnvironment, sched [][]int, d time.Duration) (int, string) {
	return -1, ""
}
func dumpProgram(procs []*process.Process, env *process.GlobalEnvironment) interface{} { return nil }

func (t *tracer) collect() ([]Ev, int) { return nil, 0 }
func execTraced(t *tracer, re *process.RuntimeEnvironment, procs []*process.Process, sched [][]int, plan []PlanStep, sub *process.SubscriberInfo) (int, string) {
	return -1, ""
}

func setMaxEvents(t *tracer, n int) {}
func overflowed(t *tracer) bool     { return false }
