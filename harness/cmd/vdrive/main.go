// vdrive runs Grits programs through the real parser / typechecker / interpreter and reports
// what happened, one JSON line per job. Built with -tags verif it also records the hook trace
// and can replay a TLC-generated schedule through the gate; built without the tag it is a
// pure black-box driver of process.InitializeProcesses.
package main

import (
	"bufio"
	"encoding/json"
	"flag"
	"fmt"
	"io"
	"os"
	"runtime"
	"strings"
	"sync"
	"time"

	"grits/parser"
	"grits/process"
)

type Job struct {
	Id         string     `json:"id"`
	Text       string     `json:"text"`
	Mode       string     `json:"mode"` // async | sync | np
	Typecheck  bool       `json:"typecheck"`
	Execute    bool       `json:"execute"`
	Monitor    bool       `json:"monitor"`
	Subscriber bool       `json:"subscriber"` // attach a subscriber (as the web front end does) whose consumers serialise every snapshot the monitor publishes
	Procs      int        `json:"gomaxprocs"`
	Seed       int64      `json:"seed"`
	Yield      float64    `json:"yield"`
	Sched      [][]int    `json:"sched"`
	ReuseEnv   bool       `json:"reuse_env"` // run on the RuntimeEnvironment the previous job of this process used (C19)
	Plan       []PlanStep `json:"plan"`      // gate replay of a behaviour of the specification: per action the processes to release and those that must finish
	Trace      bool       `json:"trace"`
	Dump       bool       `json:"dump"`
	GraceMs    int        `json:"grace_ms"`
	PostCalls  bool       `json:"post_calls"`
	MaxMs      int        `json:"max_ms"`     // give up on a run that has not reached quiescence after this long (0 = 8000)
	MaxEvents  int        `json:"max_events"` // stop recording after this many events (0 = 30000)
}

// PlanStep is one action of a behaviour of GritsRT / GritsNP: Rel = processes to let through the gate (parked participants of the
// action), Done = processes that log an "at" (are parked at their next gate, or at their first one if just spawned) or an "end".
type PlanStep struct {
	Rel  [][]int `json:"rel"`
	Done [][]int `json:"done"`
	Ends [][]int `json:"ends"` // the members of Done that end
	Fail bool    `json:"fail"` // the action is a run-time error of the first process of Rel (the run is expected to panic)
}

type Result struct {
	Id        string      `json:"id"`
	Begin     bool        `json:"begin,omitempty"`
	Parse     string      `json:"parse"`
	Tc        string      `json:"tc"`
	Assumed   int         `json:"assumed"`
	NProcs    int         `json:"nprocs"`
	Ran       bool        `json:"ran"`
	Dump      interface{} `json:"dump,omitempty"`
	Events    []Ev        `json:"events,omitempty"`
	Prints    []string    `json:"prints"`
	Stdout    string      `json:"stdout,omitempty"`
	PCount    uint64      `json:"pcount"`
	DCount    uint64      `json:"dcount"`
	Blocked   []Blocked   `json:"blocked"`
	Late      int         `json:"late"`
	ReplayDiv int         `json:"replay_div"`
	ReplayWhy string      `json:"replay_why"`
	WallMs    int64       `json:"wall_ms"`
	Hooks     bool        `json:"hooks"`
	Timeout   bool        `json:"timeout"`  // the run did not reach quiescence within max_ms (non-terminating or far too slow)
	Overflow  bool        `json:"overflow"` // more events than max_events: recording stopped
	TcEvents  []string    `json:"tc_events,omitempty"`
	SubBytes  int         `json:"sub_bytes,omitempty"` // bytes of snapshots the subscriber serialised
}

func version(mode string) process.Execution_Version {
	switch mode {
	case "sync":
		return process.NORMAL_SYNC
	case "np":
		return process.NON_POLARIZED_SYNC
	}
	return process.NORMAL_ASYNC
}

// Program output. os.Stdout is replaced ONCE, before any process goroutine exists, by a pipe that a reader goroutine drains into a
// locked buffer; it is never swapped back. (Swapping os.Stdout around every run would be an unsynchronised write by the driver
// racing with the prints of process goroutines that are still alive after the interpreter declared quiescence.)
var (
	outMu   sync.Mutex
	outBuf  strings.Builder
	outOnce sync.Once
	outW    *os.File
)

func redirectStdout() {
	outOnce.Do(func() {
		r, w, err := os.Pipe()
		if err != nil {
			return
		}
		outW = w
		os.Stdout = w
		go func() {
			buf := make([]byte, 1<<16)
			for {
				n, err := r.Read(buf)
				if n > 0 {
					outMu.Lock()
					outBuf.Write(buf[:n])
					outMu.Unlock()
				}
				if err != nil {
					return
				}
			}
		}()
	})
}

// captureStdout returns what was printed while f ran (plus whatever the pipe delivers within a short settling time).
func captureStdout(f func()) string {
	redirectStdout()
	outMu.Lock()
	start := outBuf.Len()
	outMu.Unlock()
	f()
	last := -1
	for i := 0; i < 50; i++ { // wait until the pipe is drained: no growth for 2 ms
		time.Sleep(2 * time.Millisecond)
		outMu.Lock()
		n := outBuf.Len()
		outMu.Unlock()
		if n == last {
			break
		}
		last = n
	}
	outMu.Lock()
	defer outMu.Unlock()
	return outBuf.String()[start:]
}

func runJob(j Job) (res Result) {
	res = Result{Id: j.Id, Hooks: hooksOn, ReplayDiv: -1, Prints: []string{}, Blocked: []Blocked{}}
	start := time.Now()
	defer func() { res.WallMs = time.Since(start).Milliseconds() }()
	if j.Procs > 0 {
		runtime.GOMAXPROCS(j.Procs)
	}
	procs, assumed, genv, err := parser.ParseString(j.Text)
	if err != nil {
		res.Parse = "error: " + err.Error()
		return res
	}
	res.Parse = "ok"
	res.Assumed = len(assumed)
	res.NProcs = len(procs)
	genv.LogLevels = []process.LogLevel{}
	if j.Typecheck {
		var t *tracer
		if hooksOn {
			t = newTracer(genv, j.Seed, 0, false)
			install(t)
		}
		err = process.Typecheck(procs, assumed, genv)
		if j.GraceMs > 0 {
			time.Sleep(time.Duration(j.GraceMs) * time.Millisecond)
		}
		if t != nil {
			res.TcEvents = t.tcEv
			install(nil)
		}
		if err != nil {
			res.Tc = "error: " + err.Error()
			return res
		}
		res.Tc = "ok"
	} else {
		res.Tc = "skipped"
	}
	if j.Dump {
		res.Dump = dumpProgram(procs, genv)
	}
	if !j.Execute {
		return res
	}
	re := &process.RuntimeEnvironment{GlobalEnvironment: genv, UseMonitor: j.Monitor, Color: false,
		ExecutionVersion: version(j.Mode), Typechecked: j.Typecheck, Delay: 0, Quiet: false}
	if j.ReuseEnv && lastRE != nil {
		// a host may serve several runs with ONE RuntimeEnvironment (InitializeProcesses resets its counters, context, heartbeat and channels)
		re = lastRE
		re.GlobalEnvironment, re.UseMonitor, re.ExecutionVersion, re.Typechecked = genv, j.Monitor, version(j.Mode), j.Typecheck
	}
	lastRE = re
	var t *tracer
	control := len(j.Sched) > 0 || len(j.Plan) > 0
	if hooksOn && (j.Trace || control) {
		t = newTracer(genv, j.Seed, j.Yield, control)
	}
	maxMs := j.MaxMs
	if maxMs <= 0 {
		maxMs = 8000
	}
	finished := make(chan struct{})
	go func() {
		select {
		case <-finished:
		case <-time.After(time.Duration(maxMs) * time.Millisecond):
			// report and leave: InitializeProcesses cannot be interrupted
			res.Timeout = true
			res.WallMs = time.Since(start).Milliseconds()
			resultSink(res)
			os.Exit(0)
		}
	}()
	setMaxEvents(t, j.MaxEvents)
	var sub *process.SubscriberInfo
	subStop := make(chan struct{})
	var subWg sync.WaitGroup
	if j.Monitor && j.Subscriber {
		sub = process.NewSubscriberInfo()
		subWg.Add(2)
		go func() {
			defer subWg.Done()
			for {
				select {
				case ps := <-sub.ProcessesSubscriberChan:
					b, _ := json.Marshal(ps)
					res.SubBytes += len(b)
				case <-subStop:
					return
				}
			}
		}()
		go func() {
			defer subWg.Done()
			n := 0
			for {
				select {
				case rs := <-sub.RulesSubscriberChan:
					b, _ := json.Marshal(rs)
					n += len(b)
				case <-subStop:
					return
				}
			}
		}()
	}
	out := captureStdout(func() {
		if t == nil {
			process.InitializeProcesses(procs, nil, sub, re)
			return
		}
		res.ReplayDiv, res.ReplayWhy = execTraced(t, re, procs, j.Sched, j.Plan, sub)
	})
	close(finished)
	res.Ran = true
	if j.Monitor {
		func() {
			defer func() { recover() }()
			re.StopMonitor()
		}()
	}
	close(subStop)
	subWg.Wait()
	if j.PostCalls {
		_ = re.TimeTaken()
	}
	res.PCount, res.DCount = re.ProcessCount(), re.DeadProcessCount()
	for _, l := range strings.Split(out, "\n") {
		if strings.HasPrefix(l, "> ") {
			res.Prints = append(res.Prints, strings.TrimPrefix(l, "> "))
		}
	}
	if t != nil {
		res.Blocked = t.snapshot()
		res.Events, res.Late = t.collect()
		res.Overflow = overflowed(t)
		install(nil)
	}
	return res
}

var resultSink = func(Result) {}

// the RuntimeEnvironment of the previous job of this driver process (Job.ReuseEnv)
var lastRE *process.RuntimeEnvironment

func main() {
	redirectStdout()
	in := flag.String("in", "-", "jobs (ndjson); - = stdin")
	outp := flag.String("out", "-", "results (ndjson); - = stdout is NOT allowed when executing (program prints go there)")
	flag.Parse()
	var r io.Reader = os.Stdin
	if *in != "-" {
		f, err := os.Open(*in)
		if err != nil {
			fmt.Fprintln(os.Stderr, err)
			os.Exit(3)
		}
		defer f.Close()
		r = f
	}
	var w *os.File = os.Stderr
	if *outp != "-" {
		f, err := os.OpenFile(*outp, os.O_CREATE|os.O_WRONLY|os.O_APPEND, 0644)
		if err != nil {
			fmt.Fprintln(os.Stderr, err)
			os.Exit(3)
		}
		defer f.Close()
		w = f
	}
	sc := bufio.NewScanner(r)
	sc.Buffer(make([]byte, 1<<20), 1<<28)
	enc := json.NewEncoder(w)
	for sc.Scan() {
		line := strings.TrimSpace(sc.Text())
		if line == "" {
			continue
		}
		var j Job
		if err := json.Unmarshal([]byte(line), &j); err != nil {
			fmt.Fprintln(os.Stderr, "bad job:", err)
			os.Exit(3)
		}
		enc.Encode(Result{Id: j.Id, Begin: true})
		w.Sync()
		resultSink = func(r Result) { enc.Encode(r); w.Sync() }
		res := runJob(j)
		enc.Encode(res)
		w.Sync()
	}
}
